/-
  `canonicalize_path` computes the component-level specification: `canon s = render (denote s)`.
  The byte-level loop (two cursors, an offset stack) is simulated by a fold over the tokens of the
  input (`toksAux`) that keeps the unresolved `..` and the stack of names.
-/
import N2V.Model.Canon
namespace N2V.Canon

abbrev Tok := Bytes × Option UInt8

def upsB (ups : List (Option UInt8)) : Bytes := ups.flatMap (fun sep => [dot, dot] ++ sep.toList)
def namesB (ns : List Tok) : Bytes := ns.flatMap (fun t => t.1 ++ t.2.toList)

/-- `out`/`st` represent the prefix `pre` followed by the names `rn` (most recent first), `st`
    holding the offset at which each name starts. -/
inductive Rep (pre : Bytes) : List Tok → Bytes → List Nat → Prop where
  | nil : Rep pre [] pre []
  | cons {rn out0 st0} (t : Tok) : Rep pre rn out0 st0 →
      Rep pre (t :: rn) (out0 ++ t.1 ++ t.2.toList) (out0.length :: st0)

theorem Rep.out_eq {pre : Bytes} {rn : List Tok} {out : Bytes} {st : List Nat} (h : Rep pre rn out st) :
    out = pre ++ namesB rn.reverse := by
  induction h with
  | nil => simp [namesB]
  | cons t _ ih => rw [ih]; simp [namesB, List.append_assoc]

theorem Rep.st_nil {pre : Bytes} {rn : List Tok} {out : Bytes} (h : Rep pre rn out []) : rn = [] ∧ out = pre := by
  cases h; exact ⟨rfl, rfl⟩

theorem Rep.st_cons {pre : Bytes} {rn : List Tok} {out : Bytes} {ofs : Nat} {st : List Nat}
    (h : Rep pre rn out (ofs :: st)) : ∃ t rn', rn = t :: rn' ∧ Rep pre rn' (out.take ofs) st := by
  cases h with
  | cons t h0 =>
    refine ⟨t, _, rfl, ?_⟩
    rw [List.append_assoc, List.take_left']
    · exact h0
    · rfl

/-- One token against the unresolved `..` and the stack of names (most recent first). -/
def sstep (s : List (Option UInt8) × List Tok) (t : Tok) : List (Option UInt8) × List Tok :=
  if t.1 = [dot] then s
  else if t.1 = [dot, dot] then
    match s.2 with
    | [] => (s.1 ++ [t.2], [])
    | _ :: rn' => (s.1, rn')
  else (s.1, t :: s.2)

def bodyOf (root : Bytes) (s : List (Option UInt8) × List Tok) : Bytes :=
  root ++ upsB s.1 ++ namesB s.2.reverse

def isDots (b : Bytes) : Bool := b == [dot] || b == [dot, dot]

/-! ### Unfolding `go` -/

theorem go_nil (ic : Bool) (out : Bytes) (st : List Nat) : go [] ic out st = .ok (finish out) := by
  unfold go; rfl

theorem go_comp (c : UInt8) (r out : Bytes) (st : List Nat) :
    go (c :: r) true out st = go r (!isSep c) (out ++ [c]) st := by
  rw [go]; simp

theorem go_head (c : UInt8) (r out : Bytes) (st : List Nat) :
    go (c :: r) false out st =
      match classify c r with
      | .skip r' => go r' false out st
      | .stop => .ok (finish out)
      | .up sep r' => go r' false (dotdot out st sep).1 (dotdot out st sep).2
      | .comp => go r true (out ++ [c]) (out.length :: st) := by
  rw [go]
  simp only [Bool.false_eq_true, if_false]
  split <;> rename_i h <;> simp [h]

/-! ### What `classify` means -/

theorem classify_cases (c : UInt8) (r : Bytes) :
    (isSep c = true ∧ classify c r = .skip r) ∨
    (isSep c = false ∧ c = dot ∧ r = [] ∧ classify c r = .stop) ∨
    (isSep c = false ∧ c = dot ∧ ∃ n r2, r = n :: r2 ∧ isSep n = true ∧ classify c r = .skip r2) ∨
    (isSep c = false ∧ c = dot ∧ r = [dot] ∧ classify c r = .up none []) ∨
    (isSep c = false ∧ c = dot ∧ ∃ m r3, r = dot :: m :: r3 ∧ isSep m = true ∧ classify c r = .up (some m) r3) ∨
    (isSep c = false ∧ classify c r = .comp ∧ isDots (c :: r.takeWhile (fun x => !isSep x)) = false) := by
  by_cases hs : isSep c = true
  · left; exact ⟨hs, by simp [classify, hs]⟩
  · have hs' : isSep c = false := by simpa using hs
    by_cases hd : c = dot
    · subst hd
      cases r with
      | nil => right; left; exact ⟨hs', rfl, rfl, by simp [classify, hs']⟩
      | cons n r2 =>
        by_cases hn : isSep n = true
        · right; right; left; exact ⟨hs', rfl, n, r2, rfl, hn, by simp [classify, hs', hn]⟩
        · have hn' : isSep n = false := by simpa using hn
          by_cases hnd : n = dot
          · subst hnd
            cases r2 with
            | nil => right; right; right; left; exact ⟨hs', rfl, rfl, by simp [classify, hs']⟩
            | cons m r3 =>
              by_cases hm : isSep m = true
              · right; right; right; right; left
                exact ⟨hs', rfl, m, r3, rfl, hm, by simp [classify, hs', hm]⟩
              · have hm' : isSep m = false := by simpa using hm
                right; right; right; right; right
                refine ⟨hs', by simp [classify, hs', hm'], ?_⟩
                simp [List.takeWhile, hs', hm', isDots]
          · right; right; right; right; right
            refine ⟨hs', by simp [classify, hs', hn', hnd], ?_⟩
            simp [List.takeWhile, hn', isDots, hnd]
    · right; right; right; right; right
      refine ⟨hs', by simp [classify, hs', hd], ?_⟩
      simp [isDots, hd]


/-! ### The simulation -/

theorem sstep_push (s : List (Option UInt8) × List Tok) (t : Tok) (h : isDots t.1 = false) :
    sstep s t = (s.1, t :: s.2) := by
  unfold isDots at h
  simp only [Bool.or_eq_false_iff, beq_eq_false_iff_ne, ne_eq] at h
  unfold sstep
  rw [if_neg h.1, if_neg h.2]

theorem sstep_dot (s : List (Option UInt8) × List Tok) (sep : Option UInt8) : sstep s ([dot], sep) = s := by
  unfold sstep; simp

theorem sstep_up (s : List (Option UInt8) × List Tok) (sep : Option UInt8) :
    sstep s ([dot, dot], sep) = match s.2 with | [] => (s.1 ++ [sep], []) | _ :: rn' => (s.1, rn') := by
  unfold sstep
  have : ¬ ([dot, dot] : Bytes) = [dot] := by decide
  simp [this]

theorem toksAux_nil (cur : Bytes) : toksAux [] cur = if cur.isEmpty then [] else [(cur, none)] := by
  unfold toksAux; rfl

theorem toksAux_cons (c : UInt8) (r cur : Bytes) :
    toksAux (c :: r) cur =
      if isSep c then (if cur.isEmpty then toksAux r [] else (cur, some c) :: toksAux r [])
      else toksAux r (cur ++ [c]) := by
  rw [toksAux]

theorem upsB_append (ups : List (Option UInt8)) (sep : Option UInt8) :
    upsB (ups ++ [sep]) = upsB ups ++ [dot, dot] ++ sep.toList := by
  simp [upsB, List.append_assoc]

/-- The state of `go` represents the spec state `(ups, rn)` (at a component boundary), or that
    state plus a partially copied component `cur`. -/
def Sim (root : Bytes) (ups : List (Option UInt8)) (rn : List Tok) (cur rest : Bytes) (ic : Bool)
    (out : Bytes) (st : List Nat) : Prop :=
  if ic then ∃ out0 st0, Rep (root ++ upsB ups) rn out0 st0 ∧ out = out0 ++ cur ∧ st = out0.length :: st0 ∧
      cur ≠ [] ∧ isDots (cur ++ rest.takeWhile (fun x => !isSep x)) = false
  else cur = [] ∧ Rep (root ++ upsB ups) rn out st

theorem go_sim (rest : Bytes) (ic : Bool) (out : Bytes) (st : List Nat) :
    ∀ (root : Bytes) (ups : List (Option UInt8)) (rn : List Tok) (cur : Bytes),
      Sim root ups rn cur rest ic out st →
      go rest ic out st = .ok (finish (bodyOf root ((toksAux rest cur).foldl sstep (ups, rn)))) := by
  fun_induction go rest ic out st
  case case1 ic out st =>
    intro root ups rn cur hs
    rw [toksAux_nil]
    unfold Sim at hs
    cases ic with
    | true =>
      simp only [if_true] at hs
      obtain ⟨out0, st0, hrep, ho, -, hne, hd⟩ := hs
      have hce : cur.isEmpty = false := by cases cur <;> simp_all
      simp only [hce, Bool.false_eq_true, if_false, List.foldl_cons, List.foldl_nil]
      simp only [List.takeWhile_nil, List.append_nil] at hd
      rw [sstep_push _ _ hd]
      simp only [bodyOf, List.reverse_cons, namesB, List.flatMap_append, List.flatMap_cons, List.flatMap_nil]
      rw [ho, hrep.out_eq]; simp [namesB, List.append_assoc]
    | false =>
      simp only [Bool.false_eq_true, if_false] at hs
      obtain ⟨hc, hrep⟩ := hs
      subst hc
      simp only [List.isEmpty_nil, if_true, List.foldl_nil, bodyOf]
      rw [hrep.out_eq]
  case case2 out st c r ih =>
    intro root ups rn cur hs
    unfold Sim at hs
    simp only [if_true] at hs
    obtain ⟨out0, st0, hrep, ho, hst, hne, hd⟩ := hs
    have hce : cur.isEmpty = false := by cases cur <;> simp_all
    rw [toksAux_cons]
    by_cases hsep : isSep c = true
    · -- the component ends here
      simp only [hsep, if_true, hce, Bool.false_eq_true, if_false, List.foldl_cons]
      have hd' : isDots cur = false := by
        simpa [List.takeWhile, hsep] using hd
      rw [sstep_push _ _ hd']
      have := ih root ups ((cur, some c) :: rn) [] (by
        unfold Sim
        simp only [hsep, Bool.not_true, Bool.false_eq_true, if_false]
        refine ⟨by first | rfl | trivial, ?_⟩
        have := Rep.cons (cur, some c) hrep
        simp only [Option.toList] at this
        rw [ho, hst]; exact this)
      simpa [hsep] using this
    · have hsep' : isSep c = false := by simpa using hsep
      simp only [hsep', Bool.false_eq_true, if_false]
      have := ih root ups rn (cur ++ [c]) (by
        unfold Sim
        simp only [hsep', Bool.not_false, if_true]
        refine ⟨out0, st0, hrep, by rw [ho, List.append_assoc], hst, by simp, ?_⟩
        simpa [List.takeWhile, hsep', List.append_assoc] using hd)
      simpa [hsep'] using this
  case case3 ic out st c r hn r' hc ih =>
    intro root ups rn cur hs
    have hic : ic = false := by simpa using hn
    subst hic
    unfold Sim at hs
    simp only [Bool.false_eq_true, if_false] at hs
    obtain ⟨hcur, hrep⟩ := hs
    subst hcur
    rw [toksAux_cons]
    rcases classify_cases c r with h | h | h | h | h | h
    · -- a separator
      rw [h.2] at hc; cases hc
      simp only [h.1, if_true, List.isEmpty_nil]
      exact ih root ups rn [] (by unfold Sim; simp only [Bool.false_eq_true, if_false]; exact ⟨by first | rfl | trivial, hrep⟩)
    · rw [h.2.2.2] at hc; cases hc
    · obtain ⟨hs', hd, n, r2, hr, hn', hcl⟩ := h
      rw [hcl] at hc; cases hc
      subst hr; subst hd
      simp only [hs', Bool.false_eq_true, if_false, List.nil_append]
      rw [toksAux_cons]
      simp only [hn', if_true, List.isEmpty_cons, Bool.false_eq_true, if_false, List.foldl_cons, sstep_dot]
      exact ih root ups rn [] (by unfold Sim; simp only [Bool.false_eq_true, if_false]; exact ⟨by first | rfl | trivial, hrep⟩)
    · rw [h.2.2.2] at hc; cases hc
    · obtain ⟨_, _, m, r3, _, _, hcl⟩ := h; rw [hcl] at hc; cases hc
    · rw [h.2.1] at hc; cases hc
  case case4 ic out st c r hn hc =>
    intro root ups rn cur hs
    have hic : ic = false := by simpa using hn
    subst hic
    unfold Sim at hs
    simp only [Bool.false_eq_true, if_false] at hs
    obtain ⟨hcur, hrep⟩ := hs
    subst hcur
    rcases classify_cases c r with h | h | h | h | h | h
    · rw [h.2] at hc; cases hc
    · obtain ⟨hs', hd, hr, _⟩ := h
      subst hr; subst hd
      rw [toksAux_cons]
      simp only [hs', Bool.false_eq_true, if_false, List.nil_append, toksAux_nil, List.isEmpty_cons,
        List.foldl_cons, List.foldl_nil, sstep_dot, bodyOf]
      rw [hrep.out_eq]
    · obtain ⟨_, _, n, r2, _, _, hcl⟩ := h; rw [hcl] at hc; cases hc
    · rw [h.2.2.2] at hc; cases hc
    · obtain ⟨_, _, m, r3, _, _, hcl⟩ := h; rw [hcl] at hc; cases hc
    · rw [h.2.1] at hc; cases hc
  case case5 ic out st c r hn sep r' hc p ih =>
    intro root ups rn cur hs
    have hic : ic = false := by simpa using hn
    subst hic
    unfold Sim at hs
    simp only [Bool.false_eq_true, if_false] at hs
    obtain ⟨hcur, hrep⟩ := hs
    subst hcur
    -- the spec side: the token `..` with its separator, then the rest
    have key : ∀ (rr : Bytes), (toksAux (c :: r) []).foldl sstep (ups, rn)
        = (toksAux r' []).foldl sstep (sstep (ups, rn) ([dot, dot], sep)) := by
      intro _
      rcases classify_cases c r with h | h | h | h | h | h
      · rw [h.2] at hc; cases hc
      · rw [h.2.2.2] at hc; cases hc
      · obtain ⟨_, _, n, r2, _, _, hcl⟩ := h; rw [hcl] at hc; cases hc
      · obtain ⟨hs', hd, hr, hcl⟩ := h
        rw [hcl] at hc; cases hc
        subst hr; subst hd
        rw [toksAux_cons]; simp only [hs', Bool.false_eq_true, if_false, List.nil_append]
        rw [toksAux_cons]; simp only [hs', Bool.false_eq_true, if_false]
        simp [toksAux_nil]
      · obtain ⟨hs', hd, m, r3, hr, hm, hcl⟩ := h
        rw [hcl] at hc; cases hc
        subst hr; subst hd
        rw [toksAux_cons]; simp only [hs', Bool.false_eq_true, if_false, List.nil_append]
        rw [toksAux_cons]; simp only [hs', Bool.false_eq_true, if_false]
        rw [toksAux_cons]; simp [hm]
      · rw [h.2.1] at hc; cases hc
    rw [key []]
    rw [sstep_up]
    -- the implementation side: `dotdot`
    cases st with
    | nil =>
      obtain ⟨hrn, hout⟩ := hrep.st_nil
      subst hrn
      simp only []
      have := ih root (ups ++ [sep]) [] [] (by
        unfold Sim
        simp only [Bool.false_eq_true, if_false]
        refine ⟨by first | rfl | trivial, ?_⟩
        show Rep _ [] (dotdot out [] sep).1 (dotdot out [] sep).2
        simp only [dotdot]
        rw [hout, upsB_append, ← List.append_assoc, ← List.append_assoc]
        exact Rep.nil)
      exact this
    | cons ofs st' =>
      obtain ⟨t, rn', hrn, hrep'⟩ := hrep.st_cons
      subst hrn
      simp only []
      exact ih root ups rn' [] (by
        unfold Sim
        simp only [Bool.false_eq_true, if_false]
        exact ⟨by first | rfl | trivial, hrep'⟩)
  case case6 ic out st c r hn hc ih =>
    intro root ups rn cur hs
    have hic : ic = false := by simpa using hn
    subst hic
    unfold Sim at hs
    simp only [Bool.false_eq_true, if_false] at hs
    obtain ⟨hcur, hrep⟩ := hs
    subst hcur
    rcases classify_cases c r with h | h | h | h | h | h
    · rw [h.2] at hc; cases hc
    · rw [h.2.2.2] at hc; cases hc
    · obtain ⟨_, _, n, r2, _, _, hcl⟩ := h; rw [hcl] at hc; cases hc
    · rw [h.2.2.2] at hc; cases hc
    · obtain ⟨_, _, m, r3, _, _, hcl⟩ := h; rw [hcl] at hc; cases hc
    · obtain ⟨hs', _, hd⟩ := h
      rw [toksAux_cons]
      simp only [hs', Bool.false_eq_true, if_false, List.nil_append]
      exact ih root ups rn [c] (by
        unfold Sim
        simp only [if_true]
        exact ⟨out, st, hrep, rfl, rfl, by simp, by simpa using hd⟩)


/-! ### `canon s = render (denote s)` -/

theorem dropLast_reverse_cons {α} (x : α) (l : List α) : dropLast (x :: l).reverse = l.reverse := by
  unfold dropLast
  simp

theorem resolve1_sstep (root : Option UInt8) (s : List (Option UInt8) × List Tok) (t : Tok) :
    resolve1 ⟨root, s.1, s.2.reverse⟩ t = ⟨root, (sstep s t).1, (sstep s t).2.reverse⟩ := by
  unfold resolve1 sstep
  by_cases h1 : t.1 = [dot]
  · simp [h1]
  · simp only [h1, if_false]
    by_cases h2 : t.1 = [dot, dot]
    · simp only [h2, if_true]
      cases hrn : s.2 with
      | nil => simp
      | cons x rn' =>
        simp only [List.isEmpty_reverse, List.isEmpty_cons, Bool.false_eq_true, if_false]
        rw [dropLast_reverse_cons]
    · simp [h2]

theorem foldl_resolve1 (root : Option UInt8) (ts : List Tok) (s : List (Option UInt8) × List Tok) :
    ts.foldl resolve1 ⟨root, s.1, s.2.reverse⟩ =
      ⟨root, (ts.foldl sstep s).1, (ts.foldl sstep s).2.reverse⟩ := by
  induction ts generalizing s with
  | nil => rfl
  | cons t ts ih => simp only [List.foldl_cons]; rw [resolve1_sstep, ih]

theorem render_eq (root : Option UInt8) (s : List (Option UInt8) × List Tok) :
    render ⟨root, s.1, s.2.reverse⟩ = finish (bodyOf root.toList s) := by
  unfold render finish bodyOf upsB namesB
  rfl

/-- **Functional correctness of `canonicalize_path`**: for every non-empty path, the result is
    the rendering of what the path denotes (its root, the `..` that cannot be resolved, and the
    remaining names with their separators). -/
theorem canon_spec (s : Bytes) (hne : s ≠ []) : canon s = .ok (render (denote s)) := by
  cases s with
  | nil => exact absurd rfl hne
  | cons c r =>
    unfold canon denote toks
    by_cases hs : isSep c = true
    · simp only [hs, if_true]
      have := go_sim r false [c] [] [c] [] [] [] (by
        unfold Sim
        simp only [Bool.false_eq_true, if_false]
        exact ⟨trivial, by simpa [upsB] using (Rep.nil : Rep [c] [] [c] [])⟩)
      rw [this]
      have h2 := foldl_resolve1 (some c) (toksAux r []) ([], [])
      simp only [List.reverse_nil] at h2
      rw [h2, render_eq]
      rfl
    · have hs' : isSep c = false := by simpa using hs
      simp only [hs', Bool.false_eq_true, if_false]
      have := go_sim (c :: r) false [] [] [] [] [] [] (by
        unfold Sim
        simp only [Bool.false_eq_true, if_false]
        exact ⟨trivial, by simpa [upsB] using (Rep.nil : Rep [] [] [] [])⟩)
      rw [this]
      have h2 := foldl_resolve1 none (toksAux (c :: r) []) ([], [])
      simp only [List.reverse_nil] at h2
      rw [h2, render_eq]
      rfl


/-! ### Normal forms: `denote (render d) = d` -/

/-- A well-formed token: a non-empty, separator-free name and a separator byte (if any). -/
def TokWF (t : Tok) : Prop :=
  t.1 ≠ [] ∧ (∀ b ∈ t.1, isSep b = false) ∧ (∀ c, t.2 = some c → isSep c = true)

/-- Only the last token may lack a separator. -/
def SepsOk : List Tok → Prop
  | [] => True
  | [_] => True
  | t :: t' :: rest => t.2.isSome ∧ SepsOk (t' :: rest)

theorem toksAux_wf (rest cur : Bytes) (hcur : ∀ b ∈ cur, isSep b = false) :
    (∀ t ∈ toksAux rest cur, TokWF t) ∧ SepsOk (toksAux rest cur) := by
  induction rest generalizing cur with
  | nil =>
    rw [toksAux_nil]
    by_cases h : cur.isEmpty = true
    · simp [h, SepsOk]
    · simp only [h, Bool.false_eq_true, if_false]
      refine ⟨?_, trivial⟩
      intro t ht
      simp at ht; subst ht
      exact ⟨by intro e; exact h (by simpa using e), hcur, by intro c hc; cases hc⟩
  | cons c r ih =>
    rw [toksAux_cons]
    by_cases hs : isSep c = true
    · simp only [hs, if_true]
      have ih0 := ih [] (by simp)
      by_cases h : cur.isEmpty = true
      · simp only [h, if_true]; exact ih0
      · simp only [h, Bool.false_eq_true, if_false]
        refine ⟨?_, ?_⟩
        · intro t ht
          simp at ht
          rcases ht with rfl | ht
          · exact ⟨by intro e; exact h (by simpa using e), hcur, by intro c' hc; cases hc; exact hs⟩
          · exact ih0.1 t ht
        · cases htl : toksAux r [] with
          | nil => trivial
          | cons t' rest' => exact ⟨rfl, by rw [← htl]; exact ih0.2⟩
    · have hs' : isSep c = false := by simpa using hs
      simp only [hs', Bool.false_eq_true, if_false]
      exact ih (cur ++ [c]) (by intro b hb; simp at hb; rcases hb with hb | rfl; exact hcur b hb; exact hs')

/-- Every separator recorded in the state is present. -/
def AllSome (s : List (Option UInt8) × List Tok) : Prop :=
  (∀ u ∈ s.1, u.isSome) ∧ (∀ t ∈ s.2, t.2.isSome)

/-- ... except possibly the most recent one: the last name's, or the last `..`'s when there are
    no names. -/
def FinalOk (s : List (Option UInt8) × List Tok) : Prop :=
  match s.2 with
  | [] => (∀ pre u, s.1 = pre ++ [u] → ∀ x ∈ pre, x.isSome)
  | _ :: rn' => (∀ u ∈ s.1, u.isSome) ∧ (∀ t ∈ rn', t.2.isSome)

theorem AllSome.finalOk {s : List (Option UInt8) × List Tok} (h : AllSome s) : FinalOk s := by
  unfold FinalOk
  cases hs : s.2 with
  | nil => simp only []; intro pre u hu x hx; exact h.1 x (by rw [hu]; simp [hx])
  | cons t rn' => simp only []; exact ⟨h.1, fun t' ht' => h.2 t' (by rw [hs]; simp [ht'])⟩

theorem sstep_allSome {s : List (Option UInt8) × List Tok} {t : Tok} (h : AllSome s) (ht : t.2.isSome) :
    AllSome (sstep s t) := by
  unfold sstep
  split
  · exact h
  · split
    · cases hs : s.2 with
      | nil =>
        simp only []
        exact ⟨by intro u hu; simp at hu; rcases hu with hu | rfl; exact h.1 u hu; exact ht, by simp⟩
      | cons x rn' =>
        simp only []
        exact ⟨h.1, fun t' ht' => h.2 t' (by rw [hs]; simp [ht'])⟩
    · exact ⟨h.1, by intro t' ht'; simp at ht'; rcases ht' with rfl | ht'; exact ht; exact h.2 t' ht'⟩

theorem sstep_finalOk {s : List (Option UInt8) × List Tok} {t : Tok} (h : AllSome s) : FinalOk (sstep s t) := by
  unfold sstep
  split
  · exact h.finalOk
  · split
    · cases hs : s.2 with
      | nil =>
        simp only [FinalOk]
        intro pre u hu x hx
        have := List.append_inj' hu rfl
        rw [← this.1] at hx
        exact h.1 x hx
      | cons x rn' =>
        simp only []
        exact AllSome.finalOk ⟨h.1, fun t' ht' => h.2 t' (by rw [hs]; simp [ht'])⟩
    · simp only [FinalOk]
      exact ⟨h.1, h.2⟩

theorem foldl_finalOk (ts : List Tok) (s : List (Option UInt8) × List Tok) (h : AllSome s) (hs : SepsOk ts) :
    FinalOk (ts.foldl sstep s) := by
  induction ts generalizing s with
  | nil => exact h.finalOk
  | cons t ts ih =>
    cases ts with
    | nil => simp only [List.foldl_cons, List.foldl_nil]; exact sstep_finalOk h
    | cons t' rest =>
      simp only [List.foldl_cons]
      have := ih (sstep s t) (sstep_allSome h hs.1) hs.2
      simpa using this

/-- Names in the state are well-formed tokens that are neither `.` nor `..`. -/
def NamesWF (s : List (Option UInt8) × List Tok) : Prop :=
  (∀ t ∈ s.2, TokWF t ∧ isDots t.1 = false) ∧ (∀ u ∈ s.1, ∀ c, u = some c → isSep c = true)

theorem sstep_namesWF {s : List (Option UInt8) × List Tok} {t : Tok} (h : NamesWF s) (ht : TokWF t) :
    NamesWF (sstep s t) := by
  unfold sstep
  split
  · exact h
  · rename_i h1
    split
    · cases hs : s.2 with
      | nil =>
        simp only []
        refine ⟨by simp, ?_⟩
        intro u hu c hc
        simp at hu
        rcases hu with hu | rfl
        · exact h.2 u hu c hc
        · exact ht.2.2 c hc
      | cons x rn' =>
        simp only []
        exact ⟨fun t' ht' => h.1 t' (by rw [hs]; simp [ht']), h.2⟩
    · rename_i h2
      refine ⟨?_, h.2⟩
      intro t' ht'
      simp at ht'
      rcases ht' with rfl | ht'
      · exact ⟨ht, by simp [isDots, h1, h2]⟩
      · exact h.1 t' ht'

theorem foldl_namesWF (ts : List Tok) (s : List (Option UInt8) × List Tok) (h : NamesWF s)
    (hts : ∀ t ∈ ts, TokWF t) : NamesWF (ts.foldl sstep s) := by
  induction ts generalizing s with
  | nil => exact h
  | cons t ts ih =>
    simp only [List.foldl_cons]
    exact ih _ (sstep_namesWF h (hts t (by simp))) (fun t' ht' => hts t' (by simp [ht']))


/-! ### Re-reading a rendering -/

theorem toksAux_name (name rest cur : Bytes) (h : ∀ b ∈ name, isSep b = false) :
    toksAux (name ++ rest) cur = toksAux rest (cur ++ name) := by
  induction name generalizing cur with
  | nil => simp
  | cons b name ih =>
    have hb : isSep b = false := h b (by simp)
    rw [List.cons_append, toksAux_cons]
    simp only [hb, Bool.false_eq_true, if_false]
    rw [ih (cur ++ [b]) (fun x hx => h x (by simp [hx]))]
    simp [List.append_assoc]

theorem toksAux_tok (t : Tok) (rest : Bytes) (ht : TokWF t) (c : UInt8) (hc : t.2 = some c) :
    toksAux (t.1 ++ t.2.toList ++ rest) [] = t :: toksAux rest [] := by
  obtain ⟨n, sp⟩ := t
  simp only at hc; subst hc
  have hsep : isSep c = true := ht.2.2 c rfl
  have hn : n ≠ [] := ht.1
  simp only [Option.toList]
  rw [List.append_assoc, toksAux_name _ _ _ ht.2.1]
  simp only [List.nil_append, List.cons_append]
  rw [toksAux_cons]
  have hne : n.isEmpty = false := by cases n with | nil => exact absurd rfl hn | cons _ _ => rfl
  simp [hsep, hne]

theorem toksAux_last (t : Tok) (ht : TokWF t) (hc : t.2 = none) : toksAux (t.1 ++ t.2.toList) [] = [t] := by
  obtain ⟨n, sp⟩ := t
  simp only at hc; subst hc
  have hn : n ≠ [] := ht.1
  simp only [Option.toList, List.append_nil]
  have := toksAux_name n [] [] ht.2.1
  simp only [List.append_nil, List.nil_append] at this
  rw [this, toksAux_nil]
  cases n with
  | nil => exact absurd rfl hn
  | cons _ _ => rfl

/-- Tokenising the bytes of well-formed tokens gives the tokens back. -/
theorem toksAux_namesB (ns : List Tok) (hwf : ∀ t ∈ ns, TokWF t) (hs : SepsOk ns) :
    toksAux (namesB ns) [] = ns := by
  induction ns with
  | nil => simp [namesB, toksAux_nil]
  | cons t ns ih =>
    have ht := hwf t (by simp)
    cases ns with
    | nil =>
      simp only [namesB, List.flatMap_cons, List.flatMap_nil, List.append_nil]
      cases hc : t.2 with
      | none => have := toksAux_last t ht hc; rw [hc] at this; exact this
      | some c =>
        have := toksAux_tok t [] ht c hc
        rw [List.append_nil, hc] at this
        rw [this, toksAux_nil]; rfl
    | cons t' rest =>
      obtain ⟨c, hc⟩ := Option.isSome_iff_exists.mp hs.1
      have h1 : namesB (t :: t' :: rest) = t.1 ++ t.2.toList ++ namesB (t' :: rest) := by
        simp [namesB, List.append_assoc]
      rw [h1, toksAux_tok t _ ht c hc, ih (fun x hx => hwf x (by simp [hx])) hs.2]

def upsToks (ups : List (Option UInt8)) : List Tok := ups.map (fun u => ([dot, dot], u))

theorem upsB_eq (ups : List (Option UInt8)) : upsB ups = namesB (upsToks ups) := by
  simp [upsB, namesB, upsToks, List.flatMap_map]

theorem namesB_append (a b : List Tok) : namesB (a ++ b) = namesB a ++ namesB b := by
  simp [namesB]

theorem sepsOk_of (l : List Tok) (h : ∀ pre u, l = pre ++ [u] → ∀ x ∈ pre, x.2.isSome) : SepsOk l := by
  induction l with
  | nil => trivial
  | cons t l ih =>
    cases l with
    | nil => trivial
    | cons t' rest =>
      refine ⟨?_, ih ?_⟩
      · have hne : t' :: rest ≠ [] := by simp
        obtain ⟨pre, u, hpu⟩ : ∃ pre u, t' :: rest = pre ++ [u] :=
          ⟨(t' :: rest).dropLast, (t' :: rest).getLast hne, (List.dropLast_concat_getLast hne).symm⟩
        exact h (t :: pre) u (by rw [hpu]; rfl) t (by simp)
      · intro pre u hpu x hx
        exact h (t :: pre) u (by rw [hpu]; rfl) x (by simp [hx])

/-- Folding `resolve1` over `..` tokens while there are no names only extends `ups`. -/
theorem foldl_ups (root : Option UInt8) (ups acc : List (Option UInt8)) :
    (upsToks ups).foldl resolve1 ⟨root, acc, []⟩ = ⟨root, acc ++ ups, []⟩ := by
  induction ups generalizing acc with
  | nil => simp [upsToks]
  | cons u ups ih =>
    simp only [upsToks, List.map_cons, List.foldl_cons]
    have : resolve1 ⟨root, acc, []⟩ ([dot, dot], u) = ⟨root, acc ++ [u], []⟩ := by
      unfold resolve1
      have : ¬ ([dot, dot] : Bytes) = [dot] := by decide
      simp [this]
    rw [this]
    have := ih (acc ++ [u])
    simp only [upsToks] at this
    rw [this]; simp [List.append_assoc]

/-- ... and over names that are neither `.` nor `..` only extends `names`. -/
theorem foldl_names (root : Option UInt8) (U : List (Option UInt8)) (ns acc : List Tok)
    (h : ∀ t ∈ ns, isDots t.1 = false) :
    ns.foldl resolve1 ⟨root, U, acc⟩ = ⟨root, U, acc ++ ns⟩ := by
  induction ns generalizing acc with
  | nil => simp
  | cons t ns ih =>
    simp only [List.foldl_cons]
    have hd := h t (by simp)
    unfold isDots at hd
    simp only [Bool.or_eq_false_iff, beq_eq_false_iff_ne, ne_eq] at hd
    have : resolve1 ⟨root, U, acc⟩ t = ⟨root, U, acc ++ [t]⟩ := by
      unfold resolve1; rw [if_neg hd.1, if_neg hd.2]
    rw [this, ih (acc ++ [t]) (fun x hx => h x (by simp [hx]))]
    simp [List.append_assoc]


theorem dot_not_sep : isSep dot = false := by decide

theorem foldl_all (root : Option UInt8) (ups : List (Option UInt8)) (ns : List Tok)
    (h : ∀ t ∈ ns, isDots t.1 = false) :
    (upsToks ups ++ ns).foldl resolve1 ⟨root, [], []⟩ = ⟨root, ups, ns⟩ := by
  rw [List.foldl_append, foldl_ups, foldl_names _ _ _ _ h]
  simp

/-- **Reading a rendering back gives the same denotation**, for states in normal form. -/
theorem denote_render (rootO : Option UInt8) (hroot : ∀ c, rootO = some c → isSep c = true)
    (s : List (Option UInt8) × List Tok) (hwf : NamesWF s) (hf : FinalOk s) :
    denote (finish (bodyOf rootO.toList s)) = ⟨rootO, s.1, s.2.reverse⟩ := by
  have hbody : bodyOf rootO.toList s = rootO.toList ++ namesB (upsToks s.1 ++ s.2.reverse) := by
    unfold bodyOf; rw [upsB_eq, namesB_append, List.append_assoc]
  have hLwf : ∀ t ∈ upsToks s.1 ++ s.2.reverse, TokWF t := by
    intro t ht
    simp only [List.mem_append, upsToks, List.mem_map, List.mem_reverse] at ht
    rcases ht with ⟨u, hu, rfl⟩ | ht
    · refine ⟨by simp, ?_, fun c hc => hwf.2 u hu c hc⟩
      intro b hb
      simp at hb
      rcases hb with rfl | rfl <;> exact dot_not_sep
    · exact (hwf.1 t ht).1
  have hLseps : SepsOk (upsToks s.1 ++ s.2.reverse) := by
    apply sepsOk_of
    intro pre u hpu x hx
    unfold FinalOk at hf
    cases hs2 : s.2 with
    | nil =>
      rw [hs2] at hf hpu
      simp only [List.reverse_nil, List.append_nil, upsToks] at hpu hf
      obtain ⟨l1, l2, hl, h1, h2⟩ := List.map_eq_append_iff.mp hpu
      cases l2 with
      | nil => simp at h2
      | cons a l2' =>
        cases l2' with
        | nil =>
          rw [← h1] at hx
          simp only [List.mem_map] at hx
          obtain ⟨y, hy, rfl⟩ := hx
          exact hf l1 a hl y hy
        | cons _ _ => simp at h2
    | cons t rn' =>
      rw [hs2] at hf hpu
      simp only [List.reverse_cons, ← List.append_assoc] at hpu
      have := List.append_inj' hpu rfl
      rw [← this.1] at hx
      simp only [List.mem_append, upsToks, List.mem_map, List.mem_reverse] at hx
      rcases hx with ⟨y, hy, rfl⟩ | hx
      · exact hf.1 y hy
      · exact hf.2 x hx
  have htoks := toksAux_namesB _ hLwf hLseps
  have hnd : ∀ t ∈ s.2.reverse, isDots t.1 = false := fun t ht => (hwf.1 t (by simpa using ht)).2
  cases hr : rootO with
  | some c =>
    have hc := hroot c hr
    have : finish (bodyOf (some c).toList s) = c :: namesB (upsToks s.1 ++ s.2.reverse) := by
      rw [← hr, hbody, hr]; simp [finish, Option.toList]
    rw [this]
    unfold denote toks
    simp only [hc, if_true]
    rw [htoks, foldl_all _ _ _ hnd]
  | none =>
    rw [hr] at hbody
    simp only [Option.toList, List.nil_append] at hbody
    cases hL : upsToks s.1 ++ s.2.reverse with
    | nil =>
      have hl := List.append_eq_nil_iff.mp hL
      have h1 : s.1 = [] := by
        have := hl.1; simpa [upsToks] using this
      have h2 : s.2 = [] := by
        have := hl.2; simpa using this
      show denote (finish (bodyOf [] s)) = _
      rw [hbody, hL, h1, h2]
      decide
    | cons t L' =>
      have htwf := hLwf t (by rw [hL]; simp)
      obtain ⟨b, n', hn⟩ : ∃ b n', t.1 = b :: n' := by
        cases h : t.1 with
        | nil => exact absurd h htwf.1
        | cons b n' => exact ⟨b, n', rfl⟩
      have hb : isSep b = false := htwf.2.1 b (by rw [hn]; simp)
      have hbd : namesB (t :: L') = b :: (n' ++ t.2.toList ++ namesB L') := by
        simp [namesB, hn, List.append_assoc]
      have : finish (bodyOf [] s) = b :: (n' ++ t.2.toList ++ namesB L') := by
        rw [hbody, hL, hbd]; simp [finish]
      show denote (finish (bodyOf [] s)) = _
      rw [this]
      unfold denote toks
      simp only [hb, Bool.false_eq_true, if_false]
      rw [← hbd, ← hL, htoks, foldl_all _ _ _ hnd]


/-! ### Consequences -/

theorem denote_form (s : Bytes) :
    ∃ (rootO : Option UInt8) (sf : List (Option UInt8) × List Tok),
      (∀ c, rootO = some c → isSep c = true) ∧ NamesWF sf ∧ FinalOk sf ∧
      denote s = ⟨rootO, sf.1, sf.2.reverse⟩ := by
  have init_wf : NamesWF ([], []) := ⟨by simp, by simp⟩
  have init_all : AllSome ([], []) := ⟨by simp, by simp⟩
  cases s with
  | nil => exact ⟨none, ([], []), by simp, init_wf, init_all.finalOk, rfl⟩
  | cons c r =>
    unfold denote toks
    by_cases hs : isSep c = true
    · simp only [hs, if_true]
      have hw := toksAux_wf r [] (by simp)
      refine ⟨some c, (toksAux r []).foldl sstep ([], []), ?_, foldl_namesWF _ _ init_wf hw.1,
        foldl_finalOk _ _ init_all hw.2, ?_⟩
      · intro c' hc'; cases hc'; exact hs
      · have := foldl_resolve1 (some c) (toksAux r []) ([], [])
        simpa using this
    · have hs' : isSep c = false := by simpa using hs
      simp only [hs', Bool.false_eq_true, if_false]
      have hw := toksAux_wf (c :: r) [] (by simp)
      refine ⟨none, (toksAux (c :: r) []).foldl sstep ([], []), by simp, foldl_namesWF _ _ init_wf hw.1,
        foldl_finalOk _ _ init_all hw.2, ?_⟩
      have := foldl_resolve1 none (toksAux (c :: r) []) ([], [])
      simpa using this

theorem finish_ne_nil (out : Bytes) : finish out ≠ [] := by
  unfold finish; split <;> simp_all

/-- The canonical form denotes the same location as the original spelling. -/
theorem denote_canon (s t : Bytes) (h : canon s = .ok t) : denote t = denote s := by
  have hne : s ≠ [] := by intro e; subst e; simp [canon] at h
  rw [canon_spec s hne] at h
  cases h
  obtain ⟨rootO, sf, hroot, hwf, hf, hd⟩ := denote_form s
  rw [hd, render_eq]
  exact denote_render rootO hroot sf hwf hf

/-- Canonicalisation is idempotent. -/
theorem canon_idem (s t : Bytes) (h : canon s = .ok t) : canon t = .ok t := by
  have hne : s ≠ [] := by intro e; subst e; simp [canon] at h
  have hd := denote_canon s t h
  rw [canon_spec s hne] at h
  cases h
  have hne' : render (denote s) ≠ [] := by
    obtain ⟨rootO, sf, -, -, -, hd'⟩ := denote_form s
    rw [hd', render_eq]; exact finish_ne_nil _
  rw [canon_spec _ hne', hd]

/-- Two spellings denote the same location iff they canonicalise to the same bytes. -/
theorem canon_eq_iff (s s' t t' : Bytes) (h : canon s = .ok t) (h' : canon s' = .ok t') :
    t = t' ↔ denote s = denote s' := by
  have hne : s ≠ [] := by intro e; subst e; simp [canon] at h
  have hne' : s' ≠ [] := by intro e; subst e; simp [canon] at h'
  constructor
  · intro e
    rw [← denote_canon s t h, ← denote_canon s' t' h', e]
  · intro e
    rw [canon_spec s hne] at h
    rw [canon_spec s' hne'] at h'
    cases h; cases h'
    rw [e]

/-- What remains in a canonical form: no `.` or `..` names, no empty names, no separator inside
    a name, every `..` kept is a leading one. -/
theorem canon_normal (s t : Bytes) (h : canon s = .ok t) :
    render (denote t) = t ∧
    ∀ n ∈ (denote t).names, n.1 ≠ [] ∧ n.1 ≠ [dot] ∧ n.1 ≠ [dot, dot] ∧ ∀ b ∈ n.1, isSep b = false := by
  have hne : s ≠ [] := by intro e; subst e; simp [canon] at h
  have hd := denote_canon s t h
  refine ⟨?_, ?_⟩
  · rw [hd]
    rw [canon_spec s hne] at h
    cases h; rfl
  · rw [hd]
    obtain ⟨rootO, sf, -, hwf, -, hd'⟩ := denote_form s
    rw [hd']
    intro n hn
    have := hwf.1 n (by simpa using hn)
    have hdots := this.2
    unfold isDots at hdots
    simp only [Bool.or_eq_false_iff, beq_eq_false_iff_ne, ne_eq] at hdots
    exact ⟨this.1.1, hdots.1, hdots.2, this.1.2.1⟩

end N2V.Canon
