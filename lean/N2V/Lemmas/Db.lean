import N2V.Model.Db
namespace N2V.Db

theorem encLE_length (w n : Nat) : (encLE w n).length = w := by
  induction w generalizing n with
  | zero => rfl
  | succ w ih => simp [encLE, ih]

theorem decLE_encLE (w n : Nat) (h : n < 256 ^ w) : decLE (encLE w n) = n := by
  induction w generalizing n with
  | zero => simp at h; simp [encLE, decLE, h]
  | succ w ih =>
    simp only [encLE, decLE]
    have h2 : n / 256 < 256 ^ w := by
      rw [Nat.div_lt_iff_lt_mul (by decide)]
      rw [Nat.pow_succ] at h; omega
    rw [ih _ h2]
    have : (UInt8.ofNat (n % 256)).toNat = n % 256 := by
      simp [UInt8.toNat_ofNat']
    rw [this]; omega

theorem encIds_length (l : List Nat) : (encIds l).length = 3 * l.length := by
  induction l with
  | nil => rfl
  | cons a l ih => simp [encIds, List.flatMap_cons, encLE_length] at ih ⊢; omega

theorem decIds_encIds (l : List Nat) (rest : Bytes) (h : ∀ i ∈ l, i < 2 ^ 24) :
    decIds l.length (encIds l ++ rest) = l := by
  induction l with
  | nil => rfl
  | cons a l ih =>
    have ha : a < 256 ^ 3 := by have := h a (by simp); omega
    simp only [List.length_cons, decIds, encIds, List.flatMap_cons, List.append_assoc]
    have l3 : (encLE 3 a).length = 3 := encLE_length 3 a
    rw [List.take_append_of_le_length (by omega), List.take_of_length_le (by omega), decLE_encLE 3 a ha]
    rw [List.drop_append_of_le_length (by omega), List.drop_of_length_le (by omega)]
    simp only [List.nil_append]
    have := ih (fun i hi => h i (by simp [hi]))
    simp only [encIds] at this
    rw [this]

end N2V.Db

namespace N2V.Db

theorem encLE2 (n : Nat) : encLE 2 n = [UInt8.ofNat (n % 256), UInt8.ofNat (n / 256 % 256)] := by
  simp [encLE]

theorem decLE2 (n : Nat) (h : n < 65536) :
    decLE [UInt8.ofNat (n % 256), UInt8.ofNat (n / 256 % 256)] = n := by
  have := decLE_encLE 2 n (by omega)
  rwa [encLE2] at this

/-- Round trip of one record, with anything after it. -/
theorem decodeRec_encode (r : Rec) (rest : Bytes) (hf : r.fits) :
    decodeRec (encode r ++ rest) = some (r, rest) := by
  cases r with
  | path name =>
    simp only [Rec.fits] at hf
    simp only [encode, encLE2, List.cons_append, List.nil_append, decodeRec]
    rw [decLE2 _ (by omega)]
    simp only [hf, if_true]
    have : ¬ (name ++ rest).length < name.length := by simp
    simp only [this, if_false]
    simp
  | build outs deps hash =>
    simp only [Rec.fits] at hf
    obtain ⟨ho, hd, hh, hoi, hdi⟩ := hf
    simp only [encode, encLE2, List.cons_append, List.nil_append, List.append_assoc, decodeRec]
    rw [decLE2 _ (by omega)]
    have h1 : ¬ outs.length + 0x8000 < 0x8000 := by omega
    simp only [h1, if_false]
    simp only [Nat.add_sub_cancel]
    have lo : (encIds outs).length = 3 * outs.length := encIds_length outs
    have ld : (encIds deps).length = 3 * deps.length := encIds_length deps
    have l8 : (encLE 8 hash).length = 8 := encLE_length 8 hash
    have hlen : ¬ (encIds outs ++ (UInt8.ofNat (deps.length % 256) :: UInt8.ofNat (deps.length / 256 % 256) ::
        (encIds deps ++ (encLE 8 hash ++ rest)))).length < 3 * outs.length + 2 := by
      simp [lo]
    simp only [hlen, if_false]
    rw [List.drop_left' lo]
    simp only [List.take_succ_cons, List.take_zero, List.drop_succ_cons, List.drop_zero]
    rw [decLE2 _ (by omega)]
    have hlen2 : ¬ (encIds deps ++ (encLE 8 hash ++ rest)).length < 3 * deps.length + 8 := by
      simp [ld, l8]
    simp only [hlen2, if_false]
    rw [decIds_encIds outs _ hoi, decIds_encIds deps _ hdi]
    rw [List.drop_left' ld, List.take_left' l8, decLE_encLE 8 hash (by omega)]
    have : List.drop (3 * deps.length + 8) (encIds deps ++ (encLE 8 hash ++ rest)) = rest := by
      rw [← List.append_assoc]
      exact List.drop_left' (by simp [ld, l8])
    rw [this]

end N2V.Db

namespace N2V.Db

theorem encode_length (r : Rec) : (encode r).length =
    match r with
    | .path name => 2 + name.length
    | .build outs deps _ => 2 + 3 * outs.length + 2 + 3 * deps.length + 8 := by
  cases r with
  | path name => simp [encode, encLE_length]
  | build outs deps hash => simp [encode, encLE_length, encIds_length]; omega

/-- A record that was only partly written is not read: every strict prefix of an encoding
    fails to decode. -/
theorem decodeRec_torn (r : Rec) (hf : r.fits) (k : Nat) (hk : k < (encode r).length) :
    decodeRec ((encode r).take k) = none := by
  cases r with
  | path name =>
    simp only [Rec.fits] at hf
    rw [encode_length] at hk
    simp only at hk
    simp only [encode, encLE2, List.cons_append, List.nil_append]
    match k with
    | 0 => rfl
    | 1 => rfl
    | k' + 2 =>
      simp only [List.take_succ_cons, decodeRec]
      rw [decLE2 _ (by omega)]
      simp only [hf, if_true]
      have : min k' name.length < name.length := by omega
      simp [this]
  | build outs deps hash =>
    simp only [Rec.fits] at hf
    obtain ⟨ho, hd, hh, hoi, hdi⟩ := hf
    rw [encode_length] at hk
    simp only at hk
    simp only [encode, encLE2, List.cons_append, List.nil_append, List.append_assoc]
    match k with
    | 0 => rfl
    | 1 => rfl
    | k' + 2 =>
      simp only [List.take_succ_cons, decodeRec]
      rw [decLE2 _ (by omega)]
      have h1 : ¬ outs.length + 0x8000 < 0x8000 := by omega
      simp only [h1, if_false, Nat.add_sub_cancel]
      have lo : (encIds outs).length = 3 * outs.length := encIds_length outs
      have ld : (encIds deps).length = 3 * deps.length := encIds_length deps
      have l8 : (encLE 8 hash).length = 8 := encLE_length 8 hash
      generalize hT : (encIds outs ++ (UInt8.ofNat (deps.length % 256) :: UInt8.ofNat (deps.length / 256 % 256) ::
        (encIds deps ++ encLE 8 hash))) = T
      have hTl : T.length = 3 * outs.length + 2 + 3 * deps.length + 8 := by
        rw [← hT]; simp [lo, ld, l8]; omega
      have hr1 : (List.take k' T).length = k' := by simp; omega
      by_cases hc : k' < 3 * outs.length + 2
      · simp [hr1, hc]
      · have hc' : ¬ (List.take k' T).length < 3 * outs.length + 2 := by rw [hr1]; exact hc
        simp only [hc', if_false]
        rw [List.drop_take, ← hT, List.drop_left' lo]
        obtain ⟨j, hj⟩ : ∃ j, k' - 3 * outs.length = j + 2 := ⟨k' - 3 * outs.length - 2, by omega⟩
        rw [hj]
        simp only [List.take_succ_cons, List.take_zero, List.drop_succ_cons, List.drop_zero]
        rw [decLE2 _ (by omega)]
        have : min j (3 * deps.length + 8) < 3 * deps.length + 8 := by omega
        simp [ld, l8, this]

end N2V.Db

namespace N2V.Db

theorem encode_length_pos (r : Rec) : 2 ≤ (encode r).length := by
  rw [encode_length]; cases r <;> simp <;> omega

theorem length_le_flatMap (rs : List Rec) : rs.length ≤ (rs.flatMap encode).length := by
  induction rs with
  | nil => simp
  | cons r rs ih =>
    have := encode_length_pos r
    rw [List.flatMap_cons, List.length_append, List.length_cons]; omega

/-- Reading a sequence of complete records followed by something undecodable (a torn record,
    or nothing) yields exactly those records and their total length. -/
theorem decodeAll_log (rs : List Rec) (hfit : ∀ r ∈ rs, r.fits) (torn : Bytes)
    (htorn : decodeRec torn = none) (fuel : Nat) (hfuel : rs.length < fuel) :
    decodeAll fuel (rs.flatMap encode ++ torn) = (rs, (rs.flatMap encode).length) := by
  induction rs generalizing fuel with
  | nil =>
    cases fuel with
    | zero => omega
    | succ fuel => simp [decodeAll, htorn]
  | cons r rs ih =>
    cases fuel with
    | zero => omega
    | succ fuel =>
      simp only [List.flatMap_cons, List.append_assoc, decodeAll]
      rw [decodeRec_encode r _ (hfit r (by simp))]
      simp only
      rw [ih (fun x hx => hfit x (by simp [hx])) fuel (by simp at hfuel; omega)]
      simp

theorem signature_eq : signature = [110, 50, 100, 98, 1, 0, 0, 0] := by decide

/-- C07 core: a log made of complete records followed by a torn tail parses to exactly the
    complete records, and reports their length as the intact prefix. -/
theorem parse_log_torn (rs : List Rec) (hfit : ∀ r ∈ rs, r.fits) (torn : Bytes)
    (htorn : decodeRec torn = none) :
    parse (encodeLog rs ++ torn) = .ok rs (encodeLog rs).length := by
  unfold parse encodeLog
  rw [signature_eq]
  simp only [List.cons_append, List.nil_append, List.length_cons]
  have h8 : ¬ (rs.flatMap encode ++ torn).length + 1 + 1 + 1 + 1 + 1 + 1 + 1 + 1 < 8 := by omega
  simp only [h8, if_false]
  simp only [List.take_succ_cons, List.take_zero, List.drop_succ_cons, List.drop_zero, ne_eq, not_true_eq_false,
    if_false]
  have hv : decLE [1, 0, 0, 0] = VERSION := by decide
  simp only [hv, not_true_eq_false, if_false]
  rw [decodeAll_log rs hfit torn htorn _ (by have := length_le_flatMap rs; rw [List.length_append]; omega)]
  simp only [Parsed.ok.injEq, true_and]; omega

end N2V.Db
