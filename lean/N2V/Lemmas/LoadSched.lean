/-
  The graph every invocation schedules on meets the hypotheses of the scheduler theorems
  (`GraphOK`, `DepsOK`): they follow from the loader's cross-reference invariant, which also
  survives attaching the log (interning the names of recorded dependencies).
-/
import N2V.Lemmas.LoadInv
import N2V.Lemmas.SchedWantInv
import N2V.Lemmas.SchedWantTerm
import N2V.Lemmas.WorkFrame
import N2V.Model.Work
namespace N2V.Work
open N2V N2V.Load

theorem schedGraph_ok (g : GraphM) (inv : GInv g) : Sched.GraphOK (schedGraph g) ∧ Sched.DepsOK (schedGraph g) := by
  refine ⟨?_, ⟨?_, ?_⟩⟩
  · intro f p h
    simp only [schedGraph, List.getElem?_toArray, List.size_toArray] at h ⊢
    cases hf : g.files[f]? with
    | none => rw [hf] at h; simp at h
    | some fm =>
      rw [hf] at h
      obtain ⟨bm, hb, _⟩ := inv.prod f fm p hf (by simpa using h)
      exact (List.getElem?_eq_some_iff.mp hb).1
  · intro f p h
    simp only [schedGraph, List.getElem?_toArray] at h ⊢
    cases hf : g.files[f]? with
    | none => rw [hf] at h; simp at h
    | some fm =>
      rw [hf] at h
      obtain ⟨bm, hb, ho⟩ := inv.prod f fm p hf (by simpa using h)
      rw [hb]; exact ho
  · intro b f h
    simp only [schedGraph, List.getElem?_toArray] at h ⊢
    cases hb : g.builds[b]? with
    | none =>
      rw [hb] at h
      have hd : (default : Sched.Build).ordering = [] := rfl
      simp only [hd] at h
      exact absurd h (by simp)
    | some bm =>
      rw [hb] at h
      simp only [] at h
      obtain ⟨fm, hf, hd⟩ := inv.ins b bm hb f (List.mem_of_mem_take h)
      rw [hf]; exact hd

/-- Input lists of a loaded graph name files of the graph (the hypothesis of the want phase's
    termination theorem). -/
theorem schedGraph_filesOK (g : GraphM) (inv : GInv g) : Sched.FilesOK (schedGraph g) := by
  intro b hb f hf
  simp only [schedGraph, List.getElem?_toArray, List.size_toArray] at hb hf ⊢
  cases hbm : g.builds[b]? with
  | none =>
    rw [hbm] at hf
    have hd1 : (default : Sched.Build).ordering = [] := rfl
    have hd2 : (default : Sched.Build).validation = [] := rfl
    simp only [hd1, hd2] at hf
    simp at hf
  | some bm =>
    rw [hbm] at hf
    simp only [] at hf
    have hmem : f ∈ bm.ins := by
      rcases List.mem_append.mp hf with h | h
      · exact List.mem_of_mem_take h
      · exact List.mem_of_mem_drop h
    obtain ⟨fm, hfm, _⟩ := inv.ins b bm hbm f hmem
    exact (List.getElem?_eq_some_iff.mp hfm).1

theorem intern_inv (e : Env) (name : Bytes) (inv : GInv e.g) : GInv (intern e name).1.g :=
  (idFromCanonical_spec e.g name inv).1

theorem applyLog_inv (rs : List Rec) : ∀ (e : Env), GInv e.g → GInv (applyLog e rs).g := by
  induction rs with
  | nil => intro e inv; exact inv
  | cons r rs ih =>
    intro e inv
    unfold applyLog
    simp only []
    split
    · apply ih
      simp only []
      -- interning the recorded names one by one
      have key : ∀ (deps : List Bytes) (acc : Env × List Nat), GInv acc.1.g →
          GInv (deps.foldl (fun (acc : Env × List Nat) n => ((intern acc.1 n).1, acc.2 ++ [(intern acc.1 n).2])) acc).1.g := by
        intro deps
        induction deps with
        | nil => intro acc h; exact h
        | cons n ns ihn => intro acc h; exact ihn _ (intern_inv acc.1 n h)
      exact key r.deps (e, []) inv
    · exact ih e inv

/-- **Every invocation schedules on a graph that meets the scheduler theorems' hypotheses.** -/
theorem loadEnv_graph_ok (w : World) (m : Bytes) (l : Loader) (e0 : Env) (h : loadEnv w m = .ok (l, e0)) :
    GInv e0.g ∧ Sched.GraphOK (schedGraph e0.g) ∧ Sched.DepsOK (schedGraph e0.g) := by
  unfold loadEnv at h
  simp only [] at h
  split at h
  · cases h
  · rename_i l0 hl
    cases h
    have inv : GInv l.graph := load_inv false _ m l hl
    have := applyLog_inv w.log { g := l.graph, disc := [], hashes := [], cache := [], fs := w.fs, clock := w.clock, log := w.log } inv
    exact ⟨this, schedGraph_ok _ this⟩
theorem ginv_idsOK (g : GraphM) (inv : GInv g) : IdsOK g := by
  intro b bm hb f hf
  unfold buildOf at hb
  rcases List.mem_append.mp hf with h | h
  · obtain ⟨fm, hfm, _⟩ := inv.ins b bm hb f h
    exact (List.getElem?_eq_some_iff.mp hfm).1
  · obtain ⟨fm, hfm, _⟩ := inv.outs b bm hb f h
    exact (List.getElem?_eq_some_iff.mp hfm).1

end N2V.Work
