/-
  `check_build_dirty` on a step that is up to date: when every file the step names exists, the
  stat cache tells the truth, the producers the step depends on have been dealt with, and the
  recorded manifest is the manifest of the files as they are, the check answers "clean", changes
  nothing but the stat cache, and leaves the cache truthful.
-/
import N2V.Lemmas.Work
namespace N2V.Work
open N2V N2V.Load

/-! ### Association lists -/

theorem assocGet_put_self {β} (m : List (Nat × β)) (k : Nat) (v : β) : assocGet (assocPut m k v) k = some v := by
  simp [assocGet, assocPut]

theorem assocGet_put_other {β} (m : List (Nat × β)) (k k' : Nat) (v : β) (h : k' ≠ k) :
    assocGet (assocPut m k v) k' = assocGet m k' := by
  unfold assocGet assocPut
  have h1 : ((k, v).1 == k') = false := by simp; exact fun e => h e.symm
  rw [List.find?_cons_of_neg (by simpa using h1)]
  congr 1
  induction m with
  | nil => rfl
  | cons p ps ih =>
    by_cases hp : p.1 = k
    · have hk : (p.1 == k') = false := by
        rw [hp]; cases hh : (k == k') with
        | false => rfl
        | true => exact absurd (beq_iff_eq.mp hh).symm h
      have hf : (p.1 != k) = false := by rw [hp]; exact bne_self_eq_false k
      rw [List.filter_cons, hf, List.find?_cons, hk]
      exact ih
    · have hf : (p.1 != k) = true := bne_iff_ne.mpr hp
      rw [List.filter_cons, hf]
      simp only [if_true, List.find?_cons]
      rw [ih]

/-! ### A truthful stat cache -/

/-- The mtime `stat()` reports for file `f` now. -/
def mtimeOf (e : Env) (f : Nat) : MTime := (e.fs.get (fileName e.g f)).map (·.mtime)

/-- Every cached answer is what `stat()` would answer now. -/
def Coh (e : Env) : Prop := ∀ f m, assocGet e.cache f = some m → m = mtimeOf e f

def Cached (e : Env) (f : Nat) : Prop := (assocGet e.cache f).isSome = true

/-- `b` differs from `a` only in the cache, which only grew and stayed truthful. -/
structure Grew (a b : Env) : Prop extends SameButCache a b where
  coh : Coh b
  mono : ∀ f, Cached a f → Cached b f

theorem Grew.refl {a : Env} (h : Coh a) : Grew a a := ⟨SameButCache.refl a, h, fun _ h => h⟩

theorem Grew.trans {a b c : Env} (h1 : Grew a b) (h2 : Grew b c) : Grew a c :=
  ⟨h1.toSameButCache.trans h2.toSameButCache, h2.coh, fun f h => h2.mono f (h1.mono f h)⟩

theorem mtimeOf_same {a b : Env} (h : SameButCache a b) (f : Nat) : mtimeOf b f = mtimeOf a f := by
  unfold mtimeOf; rw [h.fs, h.g]

theorem statFile_fst (e : Env) (f : Nat) : (statFile e f).1 = mtimeOf e f := rfl

theorem statFile_grew (e : Env) (f : Nat) (h : Coh e) : Grew e (statFile e f).2 := by
  refine ⟨statFile_same e f, ?_, ?_⟩
  · intro f' m hm
    have hmt : mtimeOf (statFile e f).2 f' = mtimeOf e f' := mtimeOf_same (statFile_same e f) f'
    rw [hmt]
    by_cases e' : f' = f
    · subst e'
      simp only [statFile] at hm
      rw [assocGet_put_self] at hm
      exact (Option.some.inj hm).symm
    · simp only [statFile] at hm
      rw [assocGet_put_other _ _ _ _ e'] at hm
      exact h f' m hm
  · intro f' hc
    unfold Cached at *
    by_cases e' : f' = f
    · subst e'; simp only [statFile]; rw [assocGet_put_self]; rfl
    · simp only [statFile]; rw [assocGet_put_other _ _ _ _ e']; exact hc

theorem statFile_cached (e : Env) (f : Nat) : Cached (statFile e f).2 f := by
  unfold Cached; simp only [statFile]; rw [assocGet_put_self]; rfl

/-- `ensure_input_files` over files that all exist, none of which is a generated file that was
    not stat()ed yet: no error, nothing missing, every file cached afterwards. -/
theorem ensureInputs_present (l : List Nat) : ∀ (e : Env), Coh e →
    (∀ f ∈ l, (mtimeOf e f).isSome = true) →
    (∀ f ∈ l, (fileInput e.g f).isSome = true → Cached e f) →
    ∃ e', ensureInputs e l = .ok (none, e') ∧ Grew e e' ∧ ∀ f ∈ l, Cached e' f := by
  induction l with
  | nil => intro e h _ _; exact ⟨e, rfl, Grew.refl h, fun _ hf => by cases hf⟩
  | cons f fs ih =>
    intro e hc hp hg
    unfold ensureInputs
    cases hcache : assocGet e.cache f with
    | some m =>
      simp only []
      have hm : m = mtimeOf e f := hc f m hcache
      have hs : m.isNone = false := by
        rw [hm]; have := hp f (by simp); cases h : mtimeOf e f <;> simp_all
      rw [hs]
      simp only [Bool.false_eq_true, if_false]
      obtain ⟨e', h1, h2, h3⟩ := ih e hc (fun x hx => hp x (by simp [hx])) (fun x hx => hg x (by simp [hx]))
      refine ⟨e', h1, h2, ?_⟩
      intro x hx
      rcases List.mem_cons.mp hx with rfl | hx
      · exact h2.mono _ (by unfold Cached; rw [hcache]; rfl)
      · exact h3 x hx
    | none =>
      simp only []
      have hng : (fileInput e.g f).isSome = false := by
        cases hfi : (fileInput e.g f).isSome with
        | false => rfl
        | true =>
          have := hg f (by simp) hfi
          unfold Cached at this; rw [hcache] at this; cases this
      rw [hng]
      simp only [Bool.false_eq_true, if_false]
      have hs : (statFile e f).1.isNone = false := by
        rw [statFile_fst]; have := hp f (by simp); cases h : mtimeOf e f <;> simp_all
      rw [hs]
      simp only [Bool.false_eq_true, if_false]
      have g1 := statFile_grew e f hc
      obtain ⟨e', h1, h2, h3⟩ := ih (statFile e f).2 g1.coh
        (fun x hx => by rw [mtimeOf_same g1.toSameButCache]; exact hp x (by simp [hx]))
        (fun x hx hgen => g1.mono x (hg x (by simp [hx]) (by rw [g1.g] at hgen; exact hgen)))
      refine ⟨e', h1, g1.trans h2, ?_⟩
      intro x hx
      rcases List.mem_cons.mp hx with rfl | hx
      · exact h2.mono _ (statFile_cached e _)
      · exact h3 x hx

/-- `stat_all_outputs` only grows the (truthful) cache, and afterwards holds every output. -/
theorem statAllOutputs_grew (outs : List Nat) (e : Env) (hc : Coh e) :
    Grew e (statAllOutputs e outs).2 ∧ ∀ f ∈ outs, Cached (statAllOutputs e outs).2 f := by
  unfold statAllOutputs
  have key : ∀ (l : List Nat) (acc : Option Nat × Env), Grew e acc.2 →
      Grew e (l.foldl (fun (acc : Option Nat × Env) o =>
        let (m, e') := statFile acc.2 o
        (if m.isNone && acc.1.isNone then some o else acc.1, e')) acc).2 ∧
      ∀ f, (f ∈ l ∨ Cached acc.2 f) → Cached (l.foldl (fun (acc : Option Nat × Env) o =>
        let (m, e') := statFile acc.2 o
        (if m.isNone && acc.1.isNone then some o else acc.1, e')) acc).2 f := by
    intro l
    induction l with
    | nil => intro acc h2; exact ⟨h2, fun f hf => by rcases hf with hf | hf; cases hf; exact hf⟩
    | cons o l ih =>
      intro acc h2
      simp only [List.foldl_cons]
      have g1 := statFile_grew acc.2 o h2.coh
      obtain ⟨r2, r3⟩ := ih ((if (statFile acc.2 o).1.isNone && acc.1.isNone then some o else acc.1), (statFile acc.2 o).2)
        (h2.trans g1)
      refine ⟨r2, ?_⟩
      intro f hf
      apply r3
      rcases hf with hf | hf
      · rcases List.mem_cons.mp hf with rfl | hf
        · exact Or.inr (statFile_cached _ _)
        · exact Or.inl hf
      · exact Or.inr (g1.mono f hf)
  obtain ⟨b, c⟩ := key outs (none, e) (Grew.refl hc)
  exact ⟨b, fun f hf => c f (Or.inl hf)⟩

/-- A phony step is never dirty; checking it stat()s its outputs. -/
theorem checkDirty_phony (e : Env) (b : Nat) (bm : BuildM) (hb : buildOf e.g b = some bm) (hc : Coh e)
    (hph : bm.cmdline.isNone = true) :
    (checkDirty e b).1 = some false ∧ Grew e (checkDirty e b).2 ∧ ∀ f ∈ bm.outs, Cached (checkDirty e b).2 f := by
  unfold checkDirty
  rw [hb]
  simp only []
  rw [if_pos hph]
  obtain ⟨g1, c1⟩ := statAllOutputs_grew bm.outs e hc
  exact ⟨rfl, g1, c1⟩

/-- `stat_all_outputs` over outputs that all exist. -/
theorem statAllOutputs_present (outs : List Nat) (e : Env) (hc : Coh e)
    (hp : ∀ f ∈ outs, (mtimeOf e f).isSome = true) :
    (statAllOutputs e outs).1 = none ∧ Grew e (statAllOutputs e outs).2 ∧
    ∀ f ∈ outs, Cached (statAllOutputs e outs).2 f := by
  unfold statAllOutputs
  have key : ∀ (l : List Nat) (acc : Option Nat × Env), acc.1 = none → Grew e acc.2 →
      (∀ f ∈ l, (mtimeOf e f).isSome = true) →
      (l.foldl (fun (acc : Option Nat × Env) o =>
        let (m, e') := statFile acc.2 o
        (if m.isNone && acc.1.isNone then some o else acc.1, e')) acc).1 = none ∧
      Grew e (l.foldl (fun (acc : Option Nat × Env) o =>
        let (m, e') := statFile acc.2 o
        (if m.isNone && acc.1.isNone then some o else acc.1, e')) acc).2 ∧
      ∀ f, (f ∈ l ∨ Cached acc.2 f) → Cached (l.foldl (fun (acc : Option Nat × Env) o =>
        let (m, e') := statFile acc.2 o
        (if m.isNone && acc.1.isNone then some o else acc.1, e')) acc).2 f := by
    intro l
    induction l with
    | nil => intro acc h1 h2 _; exact ⟨h1, h2, fun f hf => by rcases hf with hf | hf; cases hf; exact hf⟩
    | cons o l ih =>
      intro acc h1 h2 h3
      simp only [List.foldl_cons]
      have g1 := statFile_grew acc.2 o h2.coh
      have hs : (statFile acc.2 o).1.isNone = false := by
        rw [statFile_fst, mtimeOf_same h2.toSameButCache]
        have := h3 o (by simp); cases h : mtimeOf e o <;> simp_all
      obtain ⟨r1, r2, r3⟩ := ih ((if (statFile acc.2 o).1.isNone && acc.1.isNone then some o else acc.1), (statFile acc.2 o).2)
        (by simp [hs, h1]) (h2.trans g1) (fun x hx => h3 x (by simp [hx]))
      refine ⟨r1, r2, ?_⟩
      intro f hf
      apply r3
      rcases hf with hf | hf
      · rcases List.mem_cons.mp hf with rfl | hf
        · exact Or.inr (statFile_cached _ _)
        · exact Or.inl hf
      · exact Or.inr (g1.mono f hf)
  obtain ⟨a, b, c⟩ := key outs (none, e) rfl (Grew.refl hc) hp
  exact ⟨a, b, fun f hf => c f (Or.inl hf)⟩

/-! ### The manifest of the files as they are -/

/-- `hash_build`'s input computed from the tree itself (not from the cache). -/
def manifestFs (e : Env) (bm : BuildM) (b : Nat) : Manifest :=
  let stamp (f : Nat) : Bytes × Nat := (fileName e.g f, (mtimeOf e f).getD 0)
  { ins := bm.dirtying.map stamp, disc := (discOf e b).map stamp, cmd := bm.cmdline.getD [],
    rsp := bm.rspfile, outs := bm.outs.map stamp }

theorem manifestOf_eq_fs (e : Env) (bm : BuildM) (b : Nat) (hc : Coh e)
    (hcached : ∀ f ∈ bm.dirtying ++ discOf e b ++ bm.outs, Cached e f) :
    manifestOf e bm b = manifestFs e bm b := by
  unfold manifestOf manifestFs
  have stamp_eq : ∀ f, Cached e f →
      (fileName e.g f, ((assocGet e.cache f).getD none).getD 0) = (fileName e.g f, (mtimeOf e f).getD 0) := by
    intro f hf
    unfold Cached at hf
    cases h : assocGet e.cache f with
    | none => rw [h] at hf; cases hf
    | some m => rw [hc f m h]; rfl
  simp only [Manifest.mk.injEq, true_and]
  refine ⟨?_, ?_, ?_⟩
  · apply List.map_congr_left; intro f hf; exact stamp_eq f (hcached f (by simp [hf]))
  · apply List.map_congr_left; intro f hf; exact stamp_eq f (hcached f (by simp [hf]))
  · apply List.map_congr_left; intro f hf; exact stamp_eq f (hcached f (by simp [hf]))

theorem manifestFs_same {a b : Env} (h : SameButCache a b) (bm : BuildM) (x : Nat) :
    manifestFs b bm x = manifestFs a bm x := by
  unfold manifestFs discOf mtimeOf
  rw [h.g, h.disc, h.fs]

/-- A step is up to date: every file it names exists and its record is the manifest of the
    files as they are. -/
structure UpToDate (e : Env) (b : Nat) (bm : BuildM) : Prop where
  present : ∀ f ∈ bm.dirtying ++ discOf e b ++ bm.outs, (mtimeOf e f).isSome = true
  recorded : assocGet e.hashes b = some (manifestFs e bm b)

theorem UpToDate.same {a b : Env} (h : SameButCache a b) {x : Nat} {bm : BuildM} (u : UpToDate a x bm) :
    UpToDate b x bm := by
  refine ⟨?_, ?_⟩
  · intro f hf
    rw [mtimeOf_same h]
    apply u.present
    unfold discOf at hf ⊢; rw [h.disc] at hf; exact hf
  · rw [h.hashes, manifestFs_same h]; exact u.recorded

/-- **An up-to-date step is found clean.**  The check changes nothing but the stat cache, which
    stays truthful and afterwards holds every file the step names. -/
theorem checkDirty_upToDate (e : Env) (b : Nat) (bm : BuildM) (hb : buildOf e.g b = some bm) (hc : Coh e)
    (u : UpToDate e b bm)
    (hgen : ∀ f ∈ bm.dirtying ++ discOf e b, (fileInput e.g f).isSome = true → Cached e f) :
    (checkDirty e b).1 = some false ∧ Grew e (checkDirty e b).2 ∧
    ∀ f ∈ bm.outs, Cached (checkDirty e b).2 f := by
  by_cases hph : bm.cmdline.isNone = true
  · exact checkDirty_phony e b bm hb hc hph
  · unfold checkDirty
    rw [hb]
    simp only []
    rw [if_neg hph]
    -- the three stat rounds of `check_build_files_missing`
    obtain ⟨e1, h1, g1, c1⟩ := ensureInputs_present bm.dirtying e hc
      (fun f hf => u.present f (by simp [hf])) (fun f hf => hgen f (by simp [hf]))
    have hd1 : discOf e1 b = discOf e b := by unfold discOf; rw [g1.disc]
    obtain ⟨e2, h2, g2, c2⟩ := ensureInputs_present (discOf e1 b) e1 g1.coh
      (fun f hf => by rw [mtimeOf_same g1.toSameButCache]; exact u.present f (by rw [hd1] at hf; simp [hf]))
      (fun f hf hg => g1.mono f (hgen f (by rw [hd1] at hf; simp [hf]) (by rw [g1.g] at hg; exact hg)))
    obtain ⟨o1, g3, c3⟩ := statAllOutputs_present bm.outs e2 g2.coh
      (fun f hf => by rw [mtimeOf_same (g1.trans g2).toSameButCache]; exact u.present f (by simp [hf]))
    have g13 : Grew e (statAllOutputs e2 bm.outs).2 := (g1.trans g2).trans g3
    have hfm : filesMissing e bm b = ((statAllOutputs e2 bm.outs).2, some false) := by
      unfold filesMissing
      rw [h1]; simp only []
      rw [h2]; simp only []
      rw [o1]; rfl
    rw [hfm]
    simp only []
    have hrec : assocGet (statAllOutputs e2 bm.outs).2.hashes b = some (manifestFs e bm b) := by
      rw [g13.hashes]; exact u.recorded
    rw [hrec]
    simp only []
    have hd3 : discOf (statAllOutputs e2 bm.outs).2 b = discOf e b := by unfold discOf; rw [g13.disc]
    have hmf : manifestOf (statAllOutputs e2 bm.outs).2 bm b = manifestFs e bm b := by
      rw [manifestOf_eq_fs _ bm b g13.coh, manifestFs_same g13.toSameButCache]
      intro f hf
      rw [hd3] at hf
      simp only [List.mem_append] at hf
      rcases hf with (hf | hf) | hf
      · exact (g2.trans g3).mono f (c1 f hf)
      · exact g3.mono f (c2 f (by rw [hd1]; exact hf))
      · exact c3 f hf
    rw [hmf]
    refine ⟨by simp, g13, c3⟩

end N2V.Work
