/-
  The scheduler only threads the environment: whatever property of it the three environment
  operations (`check_build_dirty`, a command's success with `record_finished`, `-t restat`'s
  adoption) preserve is preserved by `Work::run` and by the whole of `run::build`.
-/
import N2V.Model.Run
namespace N2V.Sched
variable {E : Type}

def envOfReady : Sum (S × E × List (List Nat) × Bool) (S × E × RunResult) → E
  | .inl (_, e', _, _) => e'
  | .inr (_, e', _) => e'

theorem readyLoop_env (g : Graph) (c : Choices E) (P : E → Prop)
    (hc : ∀ e b, P e → P (c.check e b).2) (ha : ∀ e b, P e → P (c.onAdopt e b))
    (fuel : Nat) (s : S) (e : E) (perms : List (List Nat)) (p : Bool) (pe : P e) :
    P (envOfReady (readyLoop g c fuel s e perms p)) := by
  fun_induction readyLoop g c fuel s e perms p
  all_goals
    have key : ∀ b d e1, c.check _ b = (d, e1) → P e1 := fun b d e1 h => by
      have := hc _ b pe; rw [h] at this; exact this
    first
    | exact pe
    | exact key _ _ _ (by assumption)
    | (apply_assumption; exact key _ _ _ (by assumption))
    | (apply_assumption; exact ha _ _ (key _ _ _ (by assumption)))

theorem runLoop_env (g : Graph) (par : Nat) (c : Choices E) (P : E → Prop)
    (hc : ∀ e b, P e → P (c.check e b).2) (hs : ∀ e b, P e → P (c.onSuccess e b))
    (ha : ∀ e b, P e → P (c.onAdopt e b))
    (fuel : Nat) (s : S) (e : E) (perms : List (List Nat)) (fin : List (Nat × Term)) (pe : P e) :
    P (runLoop g par c fuel s e perms fin).e := by
  fun_induction runLoop g par c fuel s e perms fin
  all_goals
    have keyR : ∀ s1 pm x, readyLoop g c (g.nBuilds + 1) s1 _ pm false = x → P (envOfReady x) := fun s1 pm x h => by
      rw [← h]; exact readyLoop_env g c P hc ha _ _ _ _ _ pe
    first
    | exact pe
    | (have pe2 := keyR _ _ _ (by assumption)
       first
       | exact pe2
       | exact hs _ _ pe2
       | (apply_assumption; first | exact pe2 | exact hs _ _ pe2))
end N2V.Sched

namespace N2V.Run
open N2V N2V.Sched
variable {E : Type}

theorem phase2_env (g : Graph) (a : Args) (c : Choices E) (P : E → Prop)
    (hc : ∀ e b, P e → P (c.check e b).2) (hs : ∀ e b, P e → P (c.onSuccess e b))
    (ha : ∀ e b, P e → P (c.onAdopt e b)) (s2 : S) (e : E) (perms : List (List Nat)) (fin : List (Nat × Term))
    (tb : Nat) (pe : P e) : P (phase2 g a c s2 e perms fin tb).2.1 := by
  unfold phase2
  simp only []
  split
  · rename_i u s3 _
    have := runLoop_env g a.par c P hc hs ha (runFuel g) s3 e perms fin pe
    split <;> exact this
  · exact pe
  · exact pe

/-- **`run::build` preserves every property of the environment that the dirtiness check, a
    command's completion and `-t restat` adoption preserve.** -/
theorem build_env (g : Graph) (a : Args) (c : Choices E) (P : E → Prop)
    (hc : ∀ e b, P e → P (c.check e b).2) (hs : ∀ e b, P e → P (c.onSuccess e b))
    (ha : ∀ e b, P e → P (c.onAdopt e b)) (e : E) (pe : P e) : P (build g a c e).2.1 := by
  unfold build
  simp only []
  split
  · rename_i u s1 _
    have h1 := runLoop_env g a.par c P hc hs ha (runFuel g) s1 e c.perms c.finishes pe
    split
    · split
      · exact h1
      · exact phase2_env g a c P hc hs ha _ _ _ _ 0 h1
    · exact h1
  · exact pe
  · exact pe

theorem buildReloaded_env (g : Graph) (a : Args) (c : Choices E) (P : E → Prop)
    (hc : ∀ e b, P e → P (c.check e b).2) (hs : ∀ e b, P e → P (c.onSuccess e b))
    (ha : ∀ e b, P e → P (c.onAdopt e b)) (e : E) (n : Nat) (pe : P e) : P (buildReloaded g a c e n).2.1 :=
  phase2_env g a c P hc hs ha _ e _ _ n pe

end N2V.Run
