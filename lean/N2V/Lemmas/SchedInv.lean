/-
  The scheduler invariant and its preservation by `set`.
-/
import N2V.Lemmas.SchedBasic
namespace N2V.Sched

def active (x : St) : Bool := x == .want || x == .ready || x == .queued || x == .running

/-- "past the gate": the build's ordering inputs were established to be in place. -/
def gated (x : St) : Prop := x = .ready ∨ x = .queued ∨ x = .running ∨ x = .done ∨ x = .failed

/-- The part of the invariant that does not mention the runner: state/queue agreement,
    counters, and the gate. -/
structure InvCore (g : Graph) (s : S) : Prop where
  valid : ∀ b, s.st b ≠ .unknown → b < g.nBuilds
  readySt : ∀ id ∈ s.ready, s.st id = .ready
  readyNodup : s.ready.Nodup
  poolNames : (s.pools.map (·.name)).Nodup
  queuedSt : ∀ p ∈ s.pools, ∀ id ∈ p.queued, s.st id = .queued ∧ (g.build id).pool = p.name
  queuedNodup : ∀ p ∈ s.pools, p.queued.Nodup
  poolRunning : ∀ p ∈ s.pools,
    p.running = cnt g.nBuilds (fun b => s.st b == .running && (g.build b).pool == p.name)
  counts : ∀ x, x ≠ .unknown →
    s.counts.get x = cnt g.nBuilds (fun b => s.st b == x && !(g.build b).phony)
  pending : s.pending = cnt g.nBuilds (fun b => active (s.st b))
  ordered : ∀ b, gated (s.st b) →
    ∀ f ∈ (g.build b).ordering, ∀ p, g.producer f = some p → s.st p = .done

/-- The full invariant: the core, the runner's count, and the two limits. -/
structure Inv (g : Graph) (par : Nat) (s : S) : Prop extends InvCore g s where
  running : s.running = cnt g.nBuilds (fun b => s.st b == .running)
  parBound : s.running ≤ par
  depthBound : ∀ p ∈ s.pools, p.depth > 0 → p.running ≤ p.depth

theorem Counts.get_add (c : Counts) (x y : St) (d : Int) (hx : x ≠ .unknown) :
    (c.add y d).get x = c.get x + (if y = x then d else 0) := by
  cases x <;> cases y <;> simp_all [Counts.add, Counts.get]

/-- How the number of builds in a given class changes when one build changes state. -/
theorem cnt_upd (g : Graph) (st : Nat → St) (bid : Nat) (new : St) (hid : bid < g.nBuilds)
    (P : St → Nat → Bool) :
    (cnt g.nBuilds (fun b => P (upd st bid new b) b) : Int)
      = cnt g.nBuilds (fun b => P (st b) b) - (if P (st bid) bid then 1 else 0) + (if P new bid then 1 else 0) := by
  have := cnt_update g.nBuilds (fun b => P (st b) b) (fun b => P (upd st bid new b) b) bid hid
    (fun b hb => by simp [upd_other _ _ _ _ hb])
  simpa using this

/-- Add `d` to the running count of the pool called `name`. -/
def bump (name : Bytes) (d : Int) (p : Pool) : Pool :=
  if p.name = name then { p with running := p.running + d } else p

@[simp] theorem bump_name (n : Bytes) (d : Int) (p : Pool) : (bump n d p).name = p.name := by
  unfold bump; split <;> rfl
@[simp] theorem bump_queued (n : Bytes) (d : Int) (p : Pool) : (bump n d p).queued = p.queued := by
  unfold bump; split <;> rfl
@[simp] theorem bump_depth (n : Bytes) (d : Int) (p : Pool) : (bump n d p).depth = p.depth := by
  unfold bump; split <;> rfl
theorem bump_running (n : Bytes) (d : Int) (p : Pool) :
    (bump n d p).running = p.running + (if p.name = n then d else 0) := by
  unfold bump; split <;> simp
theorem bump_zero (n : Bytes) (p : Pool) : bump n 0 p = p := by
  unfold bump; split <;> simp
theorem bump_bump (n : Bytes) (d e : Int) (p : Pool) : bump n e (bump n d p) = bump n (d + e) p := by
  unfold bump; split <;> simp [*]; omega

theorem map_bump_zero (n : Bytes) (ps : List Pool) : ps.map (bump n 0) = ps := by
  rw [List.map_congr_left (g := fun p => p)]
  · simp
  · intro p _; exact bump_zero n p

theorem map_bump_names (n : Bytes) (d : Int) (ps : List Pool) :
    (ps.map (bump n d)).map (·.name) = ps.map (·.name) := by
  rw [List.map_map]; apply List.map_congr_left; intro p _; simp

def runDelta (prev new : St) : Int :=
  -(if prev = .running then 1 else 0) + (if new = .running then 1 else 0)

/-- The pools after `set`, when pool names are distinct. -/
theorem set_pools {g : Graph} {s s' : S} {bid : Nat} {new : St} (h : set g s bid new = .ok s')
    (hnd : (s.pools.map (·.name)).Nodup) :
    s'.pools = s.pools.map (bump (g.build bid).pool (runDelta (s.st bid) new)) := by
  obtain ⟨ps1, ps2, h1, h2, -, -, -, -, hp, -⟩ := set_spec h
  rw [hp]
  have e1 : ps1 = s.pools.map (bump (g.build bid).pool (-(if s.st bid = .running then 1 else 0))) := by
    split at h1
    · have := modPool_eq_map _ _ _ _ hnd h1
      rw [this]; apply List.map_congr_left; intro p _
      unfold bump decRunning; split <;> simp; omega
    · rename_i hne
      cases h1
      simp [hne, map_bump_zero]
  have hnd1 : (ps1.map (·.name)).Nodup := by rw [e1, map_bump_names]; exact hnd
  have e2 : ps2 = ps1.map (bump (g.build bid).pool (if new = .running then 1 else 0)) := by
    split at h2
    · have := modPool_eq_map _ _ _ _ hnd1 h2
      rw [this]; apply List.map_congr_left; intro p _
      unfold bump incRunning; split <;> simp
    · rename_i hne
      cases h2
      simp [hne, map_bump_zero]
  rw [e2, e1, List.map_map]
  apply List.map_congr_left; intro p _
  simp only [Function.comp, bump_bump, runDelta]

/-- The generic part of invariant preservation by `set`: valid ids, pool names, per-pool and
    UI counts, pending.  Needs: a real build id, no transition to `Unknown`, none out of
    `Done`/`Failed`. -/
theorem set_generic {g : Graph} {s s' : S} {bid : Nat} {new : St}
    (inv : InvCore g s) (h : set g s bid new = .ok s') (hid : bid < g.nBuilds)
    (hnew : new ≠ .unknown) (hprev : s.st bid ≠ .done ∧ s.st bid ≠ .failed) :
    (∀ b, s'.st b ≠ .unknown → b < g.nBuilds) ∧
    (s'.pools.map (·.name)).Nodup ∧
    (∀ p ∈ s'.pools, p.running = cnt g.nBuilds (fun b => s'.st b == .running && (g.build b).pool == p.name)) ∧
    (∀ x, x ≠ .unknown → s'.counts.get x = cnt g.nBuilds (fun b => s'.st b == x && !(g.build b).phony)) ∧
    s'.pending = cnt g.nBuilds (fun b => active (s'.st b)) := by
  have hpools := set_pools h inv.poolNames
  obtain ⟨_, _, -, -, hst, hc, hpend, -, -, -⟩ := set_spec h
  refine ⟨?_, ?_, ?_, ?_, ?_⟩
  · intro b hb
    rw [hst] at hb
    by_cases e : b = bid
    · rw [e]; exact hid
    · rw [upd_other _ _ _ _ e] at hb; exact inv.valid b hb
  · rw [hpools, map_bump_names]; exact inv.poolNames
  · intro p' hp'
    rw [hpools] at hp'
    simp only [List.mem_map] at hp'
    obtain ⟨p, hp, rfl⟩ := hp'
    have hr := inv.poolRunning p hp
    rw [hst, bump_running, bump_name]
    have hc := cnt_upd g s.st bid new hid (fun x b => x == .running && (g.build b).pool == p.name)
    unfold runDelta
    by_cases hn : p.name = (g.build bid).pool
    · rw [show (g.build bid).pool = p.name from hn.symm] at hc ⊢
      by_cases h1 : s.st bid = .running <;> by_cases h2 : new = .running <;>
        simp [h1, h2] at hc ⊢ <;> omega
    · have hn' : ((g.build bid).pool == p.name) = false := by
        simp; exact fun e => hn e.symm
      simp [hn, hn'] at hc ⊢
      omega
  · intro x hx
    rw [hc, hst]
    have hcn := cnt_upd g s.st bid new hid (fun y b => y == x && !(g.build b).phony)
    have hi := inv.counts x hx
    cases hph : (g.build bid).phony
    · simp only [Bool.false_eq_true, if_false]
      rw [Counts.get_add _ _ _ _ hx, Counts.get_add _ _ _ _ hx]
      by_cases h1 : s.st bid = x <;> by_cases h2 : new = x <;>
        simp [h1, h2, hph] at hcn ⊢ <;> omega
    · simp [hph] at hcn ⊢
      omega
  · rw [hpend, hst]
    have hcn := cnt_upd g s.st bid new hid (fun y _ => active y)
    have hi := inv.pending
    cases hs : s.st bid <;> cases new <;> simp_all [active] <;> omega

end N2V.Sched

namespace N2V.Sched

/-- The list-shaped and ordering parts of the invariant across one `set`. -/
theorem set_frame {g : Graph} {s s' : S} {bid : Nat} {new : St}
    (inv : InvCore g s) (h : set g s bid new = .ok s')
    (hprev : s.st bid ≠ .done)
    (hready : s.st bid = .ready → bid ∉ s.ready)
    (hqueued : s.st bid = .queued → ∀ p ∈ s.pools, bid ∉ p.queued)
    (hord : gated new → ∀ f ∈ (g.build bid).ordering, ∀ p, g.producer f = some p → s.st p = .done) :
    (∀ r ∈ s'.ready, s'.st r = .ready) ∧ s'.ready.Nodup ∧
    (∀ p ∈ s'.pools, ∀ q ∈ p.queued, s'.st q = .queued ∧ (g.build q).pool = p.name) ∧
    (∀ p ∈ s'.pools, p.queued.Nodup) ∧
    (∀ b, gated (s'.st b) → ∀ f ∈ (g.build b).ordering, ∀ p, g.producer f = some p → s'.st p = .done) := by
  have hpools := set_pools h inv.poolNames
  obtain ⟨_, _, -, -, hst, -, -, hr, -, -⟩ := set_spec h
  have notin : bid ∉ s.ready → ∀ r ∈ s.ready, r ≠ bid := fun hn r hr e => hn (e ▸ hr)
  have hbid : bid ∉ s.ready := by
    intro hm
    exact hready (inv.readySt bid hm) hm
  refine ⟨?_, ?_, ?_, ?_, ?_⟩
  · intro r hrm
    rw [hr] at hrm
    rw [hst]
    split at hrm
    · rename_i hn
      simp at hrm
      rcases hrm with hrm | rfl
      · rw [upd_other _ _ _ _ (notin hbid r hrm)]; exact inv.readySt r hrm
      · simp [hn]
    · rw [upd_other _ _ _ _ (notin hbid r hrm)]; exact inv.readySt r hrm
  · rw [hr]
    split
    · rw [List.nodup_append]
      refine ⟨inv.readyNodup, by simp, ?_⟩
      intro a ha b hb
      simp at hb; subst hb
      exact fun e => hbid (e ▸ ha)
    · exact inv.readyNodup
  · intro p' hp' q hq
    rw [hpools] at hp'
    simp only [List.mem_map] at hp'
    obtain ⟨p, hp, rfl⟩ := hp'
    simp at hq ⊢
    have := inv.queuedSt p hp q hq
    have hne : q ≠ bid := by
      intro e; subst e
      exact hqueued this.1 p hp hq
    rw [hst, upd_other _ _ _ _ hne]
    exact this
  · intro p' hp'
    rw [hpools] at hp'
    simp only [List.mem_map] at hp'
    obtain ⟨p, hp, rfl⟩ := hp'
    simpa using inv.queuedNodup p hp
  · intro b hg f hf p hp
    rw [hst] at hg ⊢
    by_cases e : b = bid
    · subst e
      simp at hg
      have := hord hg f hf p hp
      have hne : p ≠ b := by intro e; subst e; exact hprev this
      rw [upd_other _ _ _ _ hne]; exact this
    · rw [upd_other _ _ _ _ e] at hg
      have := inv.ordered b hg f hf p hp
      have hne : p ≠ bid := by intro e; subst e; exact hprev this
      rw [upd_other _ _ _ _ hne]; exact this

/-- The runner's count across one `set`. -/
theorem set_running {g : Graph} {s s' : S} {bid : Nat} {new : St}
    (h : set g s bid new = .ok s') (hid : bid < g.nBuilds) :
    (cnt g.nBuilds (fun b => s'.st b == .running) : Int)
      = cnt g.nBuilds (fun b => s.st b == .running) + runDelta (s.st bid) new := by
  obtain ⟨_, _, -, -, hst, -⟩ := set_spec h
  have hc := cnt_upd g s.st bid new hid (fun x _ => x == .running)
  rw [hst]
  unfold runDelta
  by_cases h1 : s.st bid = .running <;> by_cases h2 : new = .running <;> simp [h1, h2] at hc ⊢ <;> omega

end N2V.Sched
