/-
  Cross-reference invariant of the graph the loader builds (`Graph::add_build`, `GraphFiles`,
  `Loader::{path, add_build}`, the statement loop with include/subninja): every loaded manifest —
  any file system, any nesting — yields a graph in which each file has at most one producing step,
  a file's producer lists it, every step is a dependent of its inputs, no step lists an output
  twice, and no two files share a name.
-/
import N2V.Model.Load
namespace N2V.Load
open N2V N2V.Scanner N2V.Eval N2V.Parse

theorem modFile_get (files : List FileM) (o i : Nat) (f : FileM → FileM) :
    (modFile files o f)[i]? = if i = o then files[i]?.map f else files[i]? := by
  unfold modFile
  by_cases h : i = o
  · subst h
    simp only [if_true]
    cases hx : files[i]? with
    | none => simp [hx]
    | some x =>
      have hl := (List.getElem?_eq_some_iff.mp hx).1
      simp [List.getElem?_set, hl]
  · simp only [h, if_false]
    cases hx : files[o]? with
    | none => rfl
    | some x => simp only []; rw [List.getElem?_set_ne (fun e => h e.symm)]

theorem modFile_len (files : List FileM) (o : Nat) (f : FileM → FileM) :
    (modFile files o f).length = files.length := by
  unfold modFile; split <;> simp

/-- The graph's cross references. -/
structure GInv (g : GraphM) : Prop where
  ins : ∀ (p : Nat) (bm : BuildM), g.builds[p]? = some bm → ∀ i ∈ bm.ins,
    ∃ fm : FileM, g.files[i]? = some fm ∧ p ∈ fm.dependents
  outs : ∀ (p : Nat) (bm : BuildM), g.builds[p]? = some bm → ∀ o ∈ bm.outs,
    ∃ fm : FileM, g.files[o]? = some fm ∧ fm.input = some p
  prod : ∀ (f : Nat) (fm : FileM) (p : Nat), g.files[f]? = some fm → fm.input = some p →
    ∃ bm : BuildM, g.builds[p]? = some bm ∧ f ∈ bm.outs
  nodup : ∀ (p : Nat) (bm : BuildM), g.builds[p]? = some bm → bm.outs.Nodup
  names : ∀ (i j : Nat) (fi fj : FileM), g.files[i]? = some fi → g.files[j]? = some fj → fi.name = fj.name → i = j

theorem ginv_empty : GInv {} :=
  ⟨fun p bm h => by simp at h, fun p bm h => by simp at h, fun f fm p h => by simp at h,
   fun p bm h => by simp at h, fun i j fi fj h => by simp at h⟩

/-- **At most one producing step**: an output listed by two build statements of a loaded graph
    is listed by one and the same statement. -/
theorem GInv.unique_producer {g : GraphM} (inv : GInv g) (p q : Nat) (bp bq : BuildM) (o : Nat)
    (hp : g.builds[p]? = some bp) (hq : g.builds[q]? = some bq) (hop : o ∈ bp.outs) (hoq : o ∈ bq.outs) :
    p = q := by
  obtain ⟨fm, h1, h2⟩ := inv.outs p bp hp o hop
  obtain ⟨fm', h1', h2'⟩ := inv.outs q bq hq o hoq
  rw [h1] at h1'; cases h1'
  rw [h2] at h2'; exact Option.some.inj h2'

/-! ### Interning a name -/

theorem idFromCanonical_spec (g : GraphM) (name : Bytes) (inv : GInv g) :
    let r := idFromCanonical g name
    GInv r.1 ∧ r.1.builds = g.builds ∧ (∃ extra, r.1.files = g.files ++ extra) ∧ r.2 < r.1.files.length ∧
      (∃ fm, r.1.files[r.2]? = some fm ∧ fm.name = name) := by
  unfold idFromCanonical
  cases hfi : g.files.findIdx? (fun f => f.name == name) with
  | some i =>
    simp only []
    obtain ⟨hlt, hp, _⟩ := List.findIdx?_eq_some_iff_getElem.mp hfi
    refine ⟨inv, by first | rfl | trivial, ⟨[], by simp⟩, hlt, ⟨g.files[i], by simp [hlt], by simpa using hp⟩⟩
  | none =>
    simp only []
    have hnone : ∀ x ∈ g.files, x.name ≠ name := by
      intro x hx
      have := List.findIdx?_eq_none_iff.mp hfi x hx
      simpa using this
    have hget : ∀ (i : Nat) (fm : FileM), g.files[i]? = some fm → (g.files ++ [⟨name, none, []⟩])[i]? = some fm := by
      intro i fm h
      have hl := (List.getElem?_eq_some_iff.mp h).1
      rw [List.getElem?_append_left hl]; exact h
    have hcase : ∀ (i : Nat) (fm : FileM), (g.files ++ [(⟨name, none, []⟩ : FileM)])[i]? = some fm →
        g.files[i]? = some fm ∨ (i = g.files.length ∧ fm = ⟨name, none, []⟩) := by
      intro i fm h
      by_cases hl : i < g.files.length
      · rw [List.getElem?_append_left hl] at h; exact Or.inl h
      · rw [List.getElem?_append_right (by omega)] at h
        have : i - g.files.length = 0 := by
          cases hk : i - g.files.length with
          | zero => rfl
          | succ k => rw [hk] at h; simp at h
        rw [this] at h
        simp at h
        exact Or.inr ⟨by omega, h.symm⟩
    refine ⟨⟨?_, ?_, ?_, inv.nodup, ?_⟩, by first | rfl | trivial, ⟨_, rfl⟩, by simp, ⟨⟨name, none, []⟩, by simp, rfl⟩⟩
    · intro p bm hb i hi
      obtain ⟨fm, h1, h2⟩ := inv.ins p bm hb i hi
      exact ⟨fm, hget i fm h1, h2⟩
    · intro p bm hb o ho
      obtain ⟨fm, h1, h2⟩ := inv.outs p bm hb o ho
      exact ⟨fm, hget o fm h1, h2⟩
    · intro f fm p hf hin
      rcases hcase f fm hf with h | ⟨_, h⟩
      · exact inv.prod f fm p h hin
      · subst h; cases hin
    · intro i j fi fj hi hj hn
      rcases hcase i fi hi with h1 | ⟨h1, e1⟩ <;> rcases hcase j fj hj with h2 | ⟨h2, e2⟩
      · exact inv.names i j fi fj h1 h2 hn
      · subst e2
        exact absurd hn (hnone fi (List.mem_of_getElem? h1))
      · subst e1
        exact absurd hn.symm (hnone fj (List.mem_of_getElem? h2))
      · omega
/-! ### `Graph::add_build` -/

def addDep (newId : Nat) (fm : FileM) : FileM := { fm with dependents := fm.dependents ++ [newId] }
def setInput (newId : Nat) (fm : FileM) : FileM := { fm with input := some newId }

theorem insFold_spec (newId : Nat) (ins : List Nat) : ∀ (files : List FileM),
    (ins.foldl (fun fs i => modFile fs i (fun f => { f with dependents := f.dependents ++ [newId] })) files).length = files.length ∧
    ∀ (i : Nat) (fm : FileM), files[i]? = some fm →
      ∃ extra, (ins.foldl (fun fs i => modFile fs i (fun f => { f with dependents := f.dependents ++ [newId] })) files)[i]?
          = some { fm with dependents := fm.dependents ++ extra } ∧ (i ∈ ins → newId ∈ extra) := by
  induction ins with
  | nil =>
    intro files
    refine ⟨rfl, fun i fm h => ⟨[], by simpa using h, by simp⟩⟩
  | cons x rest ih =>
    intro files
    simp only [List.foldl_cons]
    obtain ⟨hl, hg⟩ := ih (modFile files x (fun f => { f with dependents := f.dependents ++ [newId] }))
    refine ⟨by rw [hl, modFile_len], ?_⟩
    intro i fm h
    by_cases hix : i = x
    · subst hix
      have h1 : (modFile files i (fun f => { f with dependents := f.dependents ++ [newId] }))[i]? = some (addDep newId fm) := by
        rw [modFile_get, if_pos rfl, h]; rfl
      obtain ⟨extra, h2, _⟩ := hg i _ h1
      refine ⟨newId :: extra, ?_, fun _ => by simp⟩
      rw [h2]; simp [addDep]
    · have h1 : (modFile files x (fun f => { f with dependents := f.dependents ++ [newId] }))[i]? = some fm := by
        rw [modFile_get, if_neg hix, h]
      obtain ⟨extra, h2, h3⟩ := hg i _ h1
      refine ⟨extra, h2, fun hm => h3 ?_⟩
      simp at hm
      rcases hm with e | e
      · exact absurd e hix
      · exact e

theorem setInput_idem (newId : Nat) (fm : FileM) : setInput newId (setInput newId fm) = setInput newId fm := rfl

theorem setInput_fix (newId : Nat) (fm : FileM) (h : fm.input = some newId) : setInput newId fm = fm := by
  cases fm; simp [setInput] at *; exact h.symm

theorem claimOuts_spec (newId : Nat) (loc : Loc) (builds : List BuildM) (os : List Nat) :
    ∀ (files : List FileM) (dup : Nat) (files2 : List FileM) (dup2 : Nat),
    claimOuts newId loc builds os files dup = .ok (files2, dup2) →
    (∀ i : Nat, files2[i]? = if i ∈ os then files[i]?.map (setInput newId) else files[i]?) ∧
    (∀ o ∈ os, ∃ fm : FileM, files[o]? = some fm ∧ (fm.input = none ∨ fm.input = some newId)) ∧
    dup ≤ dup2 := by
  induction os with
  | nil =>
    intro files dup files2 dup2 h
    simp only [claimOuts] at h
    cases h
    exact ⟨fun i => by simp, fun o ho => by simp at ho, Nat.le_refl _⟩
  | cons o rest ih =>
    intro files dup files2 dup2 h
    unfold claimOuts at h
    cases hx : files[o]? with
    | none => rw [hx] at h; simp at h
    | some f =>
      rw [hx] at h
      simp only [] at h
      cases hi : f.input with
      | some prev =>
        rw [hi] at h
        simp only [] at h
        by_cases hp : prev = newId
        · rw [if_pos hp] at h
          obtain ⟨h1, h2, h3⟩ := ih files (dup + 1) files2 dup2 h
          refine ⟨?_, ?_, by omega⟩
          · intro i
            rw [h1 i]
            by_cases hir : i ∈ rest
            · simp [hir]
            · by_cases hio : i = o
              · subst hio
                simp only [hir, if_false, List.mem_cons, true_or, if_true, hx, Option.map_some]
                rw [setInput_fix newId f (by rw [hi, hp])]
              · simp [hir, hio]
          · intro o' ho'
            simp at ho'
            rcases ho' with e | e
            · subst e; exact ⟨f, hx, Or.inr (by rw [hi, hp])⟩
            · exact h2 o' e
        · rw [if_neg hp] at h; simp at h
      | none =>
        rw [hi] at h
        simp only [] at h
        obtain ⟨h1, h2, h3⟩ := ih _ dup files2 dup2 h
        refine ⟨?_, ?_, h3⟩
        · intro i
          rw [h1 i, modFile_get]
          by_cases hio : i = o
          · subst hio
            by_cases hir : i ∈ rest
            · simp [hir, hx, setInput]
            · simp [hir, hx, setInput]
          · by_cases hir : i ∈ rest
            · simp [hir, hio]
            · simp [hir, hio]
        · intro o' ho'
          simp at ho'
          rcases ho' with e | e
          · subst e; exact ⟨f, hx, Or.inl hi⟩
          · obtain ⟨fm, hf, hc⟩ := h2 o' e
            rw [modFile_get] at hf
            by_cases hoo : o' = o
            · subst hoo; exact ⟨f, hx, Or.inl hi⟩
            · rw [if_neg hoo] at hf; exact ⟨fm, hf, hc⟩

/-- No repeated occurrence counted means no output was repeated. -/
theorem claimOuts_nodup (newId : Nat) (loc : Loc) (builds : List BuildM) (os : List Nat) :
    ∀ (files : List FileM) (dup : Nat) (files2 : List FileM) (dup2 : Nat) (S : List Nat),
    (∀ (i : Nat) (fm : FileM), files[i]? = some fm → (fm.input = some newId ↔ i ∈ S)) →
    claimOuts newId loc builds os files dup = .ok (files2, dup2) → dup2 = dup →
    os.Nodup ∧ ∀ o ∈ os, o ∉ S := by
  induction os with
  | nil => intro files dup files2 dup2 S _ _ _; exact ⟨List.nodup_nil, fun o ho => by simp at ho⟩
  | cons o rest ih =>
    intro files dup files2 dup2 S hS h hd
    have hspec := claimOuts_spec newId loc builds (o :: rest) files dup files2 dup2 h
    unfold claimOuts at h
    cases hx : files[o]? with
    | none => rw [hx] at h; simp at h
    | some f =>
      rw [hx] at h
      simp only [] at h
      cases hi : f.input with
      | some prev =>
        rw [hi] at h
        simp only [] at h
        by_cases hp : prev = newId
        · rw [if_pos hp] at h
          have := (claimOuts_spec newId loc builds rest files (dup + 1) files2 dup2 h).2.2
          omega
        · rw [if_neg hp] at h; simp at h
      | none =>
        rw [hi] at h
        simp only [] at h
        have hS' : ∀ (i : Nat) (fm : FileM), (modFile files o (fun f => { f with input := some newId }))[i]? = some fm →
            (fm.input = some newId ↔ i ∈ o :: S) := by
          intro i fm hf
          rw [modFile_get] at hf
          by_cases hio : i = o
          · subst hio
            rw [if_pos rfl, hx] at hf
            simp at hf; subst hf; simp
          · rw [if_neg hio] at hf
            rw [hS i fm hf]; simp [hio]
        obtain ⟨hn, hnot⟩ := ih _ dup files2 dup2 (o :: S) hS' h hd
        have hoS : o ∉ S := by
          intro hm
          have := (hS o f hx).mpr hm
          rw [hi] at this; cases this
        refine ⟨List.nodup_cons.mpr ⟨fun hm => hnot o hm (by simp), hn⟩, ?_⟩
        intro o' ho'
        simp at ho'
        rcases ho' with e | e
        · subst e; exact hoS
        · intro hm; exact hnot o' e (by simp [hm])

/-- `remove_duplicates` leaves no id twice. -/
theorem removeDups_nodup (l : List Nat) (e : Nat) : (removeDups l 0 [] e []).1.Nodup := by
  have key : ∀ (l seen acc : List Nat) (i e : Nat), acc.Nodup → (∀ x ∈ acc, x ∈ seen) →
      (removeDups l i seen e acc).1.Nodup := by
    intro l
    induction l with
    | nil => intro seen acc i e h _; simpa [removeDups] using h
    | cons y rest ih =>
      intro seen acc i e hn hs
      unfold removeDups
      split
      · apply ih _ _ _ _ hn
        intro x hx; simp; exact Or.inl (hs x hx)
      · rename_i h
        simp at h
        apply ih
        · rw [List.nodup_append]
          refine ⟨hn, by simp, ?_⟩
          intro a ha b hb
          simp at hb; subst hb
          exact fun e => h (e ▸ hs a ha)
        · intro x hx
          simp at hx ⊢
          rcases hx with hx | hx
          · exact Or.inl (hs x hx)
          · exact Or.inr hx
  exact key l [] [] 0 e (by simp) (by simp)

/-- The ids that survive are those of the statement, each once. -/
theorem removeDups_mem (l : List Nat) (e : Nat) (x : Nat) :
    x ∈ (removeDups l 0 [] e []).1 ↔ x ∈ l := by
  have key : ∀ (l seen acc : List Nat) (i e : Nat),
      x ∈ (removeDups l i seen e acc).1 ↔ x ∈ acc ∨ (x ∈ l ∧ x ∉ seen) := by
    intro l
    induction l with
    | nil => intro seen acc i e; simp [removeDups]
    | cons y rest ih =>
      intro seen acc i e
      unfold removeDups
      split
      · rename_i h
        rw [ih]; simp at h ⊢
        constructor
        · rintro (h1 | ⟨h1, h2, h3⟩)
          · exact Or.inl h1
          · exact Or.inr ⟨Or.inr h1, h2⟩
        · rintro (h1 | ⟨h1 | h1, h2⟩)
          · exact Or.inl h1
          · subst h1; exact absurd h h2
          · by_cases hxy : x = y
            · subst hxy; exact absurd h h2
            · exact Or.inr ⟨h1, h2, hxy⟩
      · rename_i h
        rw [ih]; simp at h ⊢
        constructor
        · rintro ((h1 | h1) | ⟨h1, h2, h3⟩)
          · exact Or.inl h1
          · subst h1; exact Or.inr ⟨Or.inl rfl, h⟩
          · exact Or.inr ⟨Or.inr h1, h2⟩
        · rintro (h1 | ⟨h1 | h1, h2⟩)
          · exact Or.inl (Or.inl h1)
          · exact Or.inl (Or.inr h1)
          · by_cases hxy : x = y
            · exact Or.inl (Or.inr hxy)
            · exact Or.inr ⟨h1, h2, hxy⟩
  simpa using key l [] [] 0 e


/-- What `add_build` leaves in the file table. -/
theorem addBuild_files (g : GraphM) (b : BuildM) (files2 : List FileM) (dup : Nat)
    (hins : ∀ i ∈ b.ins, i < g.files.length)
    (hc : claimOuts g.builds.length b.loc g.builds b.outs
      (b.ins.foldl (fun fs i => modFile fs i (fun f => { f with dependents := f.dependents ++ [g.builds.length] })) g.files) 0
        = .ok (files2, dup)) :
    (∀ (i : Nat) (fm2 : FileM), files2[i]? = some fm2 → ∃ (fm0 : FileM) (extra : List Nat), g.files[i]? = some fm0 ∧
      (i ∈ b.ins → g.builds.length ∈ extra) ∧
      fm2 = { name := fm0.name, input := if i ∈ b.outs then some g.builds.length else fm0.input,
              dependents := fm0.dependents ++ extra }) ∧
    (∀ (i : Nat) (fm0 : FileM), g.files[i]? = some fm0 → ∃ fm2 : FileM, files2[i]? = some fm2) ∧
    (∀ o ∈ b.outs, ∃ fm0 : FileM, g.files[o]? = some fm0 ∧ (fm0.input = none ∨ fm0.input = some g.builds.length)) := by
  obtain ⟨hl1, hf1⟩ := insFold_spec g.builds.length b.ins g.files
  obtain ⟨hs1, hs2, _⟩ := claimOuts_spec _ _ _ _ _ _ _ _ hc
  have fwd : ∀ (i : Nat) (fm0 : FileM), g.files[i]? = some fm0 → ∃ extra : List Nat,
      (i ∈ b.ins → g.builds.length ∈ extra) ∧
      files2[i]? = some { name := fm0.name, input := if i ∈ b.outs then some g.builds.length else fm0.input,
                          dependents := fm0.dependents ++ extra } := by
    intro i fm0 h0
    obtain ⟨extra, h1, h2⟩ := hf1 i fm0 h0
    refine ⟨extra, h2, ?_⟩
    rw [hs1 i]
    have h1' : (b.ins.foldl (fun fs i => modFile fs i (fun f => { f with dependents := f.dependents ++ [g.builds.length] })) g.files)[i]?
        = some { fm0 with dependents := fm0.dependents ++ extra } := h1
    rw [h1']
    by_cases ho : i ∈ b.outs
    · simp [ho, setInput]
    · simp [ho]
  refine ⟨?_, ?_, ?_⟩
  · intro i fm2 h2
    have hlt : i < g.files.length := by
      have := (List.getElem?_eq_some_iff.mp h2).1
      have hl2 : files2.length = g.files.length := by
        -- lengths agree pointwise
        apply Nat.le_antisymm
        · apply Nat.le_of_not_lt; intro hlt
          have hn : g.files[g.files.length]? = none := by simp
          have := hs1 g.files.length
          have hn1 : (b.ins.foldl (fun fs i => modFile fs i (fun f => { f with dependents := f.dependents ++ [g.builds.length] })) g.files)[g.files.length]? = none := by
            apply List.getElem?_eq_none; rw [show _ = g.files.length from hl1]; exact Nat.le_refl _
          rw [hn1] at this
          simp at this
          omega
        · apply Nat.le_of_not_lt; intro hlt
          obtain ⟨extra, _, h⟩ := fwd files2.length (g.files[files2.length]) (by simp [hlt])
          simp at h
      omega
    obtain ⟨extra, he, h⟩ := fwd i g.files[i] (by simp [hlt])
    rw [h] at h2
    exact ⟨g.files[i], extra, by simp [hlt], he, (Option.some.inj h2).symm⟩
  · intro i fm0 h0
    obtain ⟨extra, _, h⟩ := fwd i fm0 h0
    exact ⟨_, h⟩
  · intro o ho
    obtain ⟨fm1, h1, hc1⟩ := hs2 o ho
    have hlt : o < g.files.length := by
      have := (List.getElem?_eq_some_iff.mp h1).1
      rw [show _ = g.files.length from hl1] at this; exact this
    obtain ⟨extra, h1', _⟩ := hf1 o g.files[o] (by simp [hlt])
    have h1'' : (b.ins.foldl (fun fs i => modFile fs i (fun f => { f with dependents := f.dependents ++ [g.builds.length] })) g.files)[o]?
        = some { g.files[o] with dependents := g.files[o].dependents ++ extra } := h1'
    rw [h1''] at h1
    have := Option.some.inj h1
    subst this
    exact ⟨g.files[o], by simp [hlt], hc1⟩

theorem getElem?_append_one {α} (l : List α) (x : α) (p : Nat) (y : α) (h : (l ++ [x])[p]? = some y) :
    l[p]? = some y ∨ (p = l.length ∧ y = x) := by
  by_cases hl : p < l.length
  · rw [List.getElem?_append_left hl] at h; exact Or.inl h
  · rw [List.getElem?_append_right (by omega)] at h
    have : p - l.length = 0 := by
      cases hk : p - l.length with
      | zero => rfl
      | succ k => rw [hk] at h; simp at h
    rw [this] at h
    simp at h
    exact Or.inr ⟨by omega, h.symm⟩

/-- **`Graph::add_build` keeps the cross references consistent.** -/
theorem addBuild_inv (g : GraphM) (b : BuildM) (g' : GraphM) (w : Nat) (inv : GInv g)
    (hins : ∀ i ∈ b.ins, i < g.files.length) (h : addBuild g b = .ok (g', w)) :
    GInv g' ∧ g'.files.length = g.files.length ∧ g'.builds.length = g.builds.length + 1 ∧
    (∀ (i : Nat) (fm : FileM), g.files[i]? = some fm → ∃ fm' : FileM, g'.files[i]? = some fm' ∧ fm'.name = fm.name) := by
  unfold addBuild at h
  simp only [] at h
  cases hc : claimOuts g.builds.length b.loc g.builds b.outs
      (b.ins.foldl (fun fs i => modFile fs i (fun f => { f with dependents := f.dependents ++ [g.builds.length] })) g.files) 0 with
  | error e => rw [hc] at h; cases h
  | ok r =>
    obtain ⟨files2, dup⟩ := r
    rw [hc] at h
    simp only [] at h
    obtain ⟨char, total, hclaim⟩ := addBuild_files g b files2 dup hins hc
    -- the statement as stored
    generalize hb' : (if dup > 0 then
        (match removeDups b.outs 0 [] b.explicitOuts [] with
          | (ids, e) => { b with outs := ids, explicitOuts := e })
      else b) = b' at h
    have hb'ins : b'.ins = b.ins := by
      rw [← hb']; split <;> rfl
    have hb'mem : ∀ x, x ∈ b'.outs ↔ x ∈ b.outs := by
      intro x; rw [← hb']
      split
      · exact removeDups_mem b.outs b.explicitOuts x
      · exact Iff.rfl
    have hold : ∀ (i : Nat) (fm0 : FileM), g.files[i]? = some fm0 → fm0.input ≠ some g.builds.length := by
      intro i fm0 h0 hin
      obtain ⟨bm, hbm, _⟩ := inv.prod i fm0 _ h0 hin
      have := (List.getElem?_eq_some_iff.mp hbm).1
      omega
    have hb'nd : b'.outs.Nodup := by
      rw [← hb']
      split
      · exact removeDups_nodup b.outs b.explicitOuts
      · rename_i hd
        have hd0 : dup = 0 := by omega
        refine (claimOuts_nodup _ _ _ _ _ _ _ _ [] ?_ hc hd0).1
        intro i fm hf
        obtain ⟨_, hf1⟩ := insFold_spec g.builds.length b.ins g.files
        have hlt : i < g.files.length := by
          have := (List.getElem?_eq_some_iff.mp hf).1
          rw [(insFold_spec g.builds.length b.ins g.files).1] at this; exact this
        obtain ⟨extra, h1, _⟩ := hf1 i g.files[i] (by simp [hlt])
        rw [h1] at hf
        have := Option.some.inj hf
        subst this
        simp only [List.not_mem_nil, iff_false]
        exact hold i g.files[i] (by simp [hlt])
    have hg' : g' = { files := files2, builds := g.builds ++ [b'] } := by
      cases h; rfl
    subst hg'
    have hlen : files2.length = g.files.length := by
      apply Nat.le_antisymm
      · apply Nat.le_of_not_lt; intro hlt
        obtain ⟨fm0, _, h0, _⟩ := char g.files.length files2[g.files.length] (by simp [hlt])
        simp at h0
      · apply Nat.le_of_not_lt; intro hlt
        obtain ⟨fm2, h2⟩ := total files2.length g.files[files2.length] (by simp [hlt])
        simp at h2
    refine ⟨⟨?_, ?_, ?_, ?_, ?_⟩, hlen, by simp, ?_⟩
    · -- ins
      intro p bm hp i hi
      rcases getElem?_append_one _ _ _ _ hp with hp | ⟨hpe, hbm⟩
      · obtain ⟨fm0, h0, hd⟩ := inv.ins p bm hp i hi
        obtain ⟨fm2, h2⟩ := total i fm0 h0
        obtain ⟨fm0', extra, h0', _, e⟩ := char i fm2 h2
        rw [h0] at h0'; cases h0'
        exact ⟨fm2, h2, by rw [e]; simp [hd]⟩
      · subst hbm
        rw [hb'ins] at hi
        have hlt := hins i hi
        obtain ⟨fm2, h2⟩ := total i g.files[i] (by simp [hlt])
        obtain ⟨fm0', extra, h0', he, e⟩ := char i fm2 h2
        exact ⟨fm2, h2, by rw [e, hpe]; simp [he hi]⟩
    · -- outs
      intro p bm hp o ho
      rcases getElem?_append_one _ _ _ _ hp with hp | ⟨hpe, hbm⟩
      · obtain ⟨fm0, h0, hin⟩ := inv.outs p bm hp o ho
        obtain ⟨fm2, h2⟩ := total o fm0 h0
        obtain ⟨fm0', extra, h0', _, e⟩ := char o fm2 h2
        rw [h0] at h0'; cases h0'
        have hno : o ∉ b.outs := by
          intro hm
          obtain ⟨fmx, hx, hcx⟩ := hclaim o hm
          rw [h0] at hx; cases hx
          have hpl := (List.getElem?_eq_some_iff.mp hp).1
          rcases hcx with e1 | e1 <;> rw [hin] at e1
          · cases e1
          · have := Option.some.inj e1; omega
        exact ⟨fm2, h2, by rw [e]; simp [hno, hin]⟩
      · subst hbm
        have hm := (hb'mem o).mp ho
        obtain ⟨fm0, h0, _⟩ := hclaim o hm
        obtain ⟨fm2, h2⟩ := total o fm0 h0
        obtain ⟨fm0', extra, h0', _, e⟩ := char o fm2 h2
        exact ⟨fm2, h2, by rw [e, hpe]; simp [hm]⟩
    · -- prod
      intro f fm2 p h2 hin
      obtain ⟨fm0, extra, h0, _, e⟩ := char f fm2 h2
      by_cases hm : f ∈ b.outs
      · rw [e] at hin; simp [hm] at hin
        subst hin
        exact ⟨b', by simp, (hb'mem f).mpr hm⟩
      · rw [e] at hin; simp [hm] at hin
        obtain ⟨bm, hbm, hf⟩ := inv.prod f fm0 p h0 hin
        have hpl := (List.getElem?_eq_some_iff.mp hbm).1
        exact ⟨bm, by rw [List.getElem?_append_left hpl]; exact hbm, hf⟩
    · -- nodup
      intro p bm hp
      rcases getElem?_append_one _ _ _ _ hp with hp | ⟨_, hbm⟩
      · exact inv.nodup p bm hp
      · subst hbm; exact hb'nd
    · -- names
      intro i j fi fj hi hj hn
      obtain ⟨fi0, _, hi0, _, ei⟩ := char i fi hi
      obtain ⟨fj0, _, hj0, _, ej⟩ := char j fj hj
      apply inv.names i j fi0 fj0 hi0 hj0
      rw [ei, ej] at hn; exact hn
    · intro i fm h0
      obtain ⟨fm2, h2⟩ := total i fm h0
      obtain ⟨fm0', extra, h0', _, e⟩ := char i fm2 h2
      rw [h0] at h0'; cases h0'
      exact ⟨fm2, h2, by rw [e]⟩

/-! ### The loader -/

theorem path_inv (l : Loader) (p : Bytes) (l' : Loader) (i : Nat) (inv : GInv l.graph)
    (h : path l p = .ok (l', i)) :
    GInv l'.graph ∧ l'.graph.builds = l.graph.builds ∧ l.graph.files.length ≤ l'.graph.files.length ∧
      i < l'.graph.files.length := by
  unfold path at h
  split at h
  · cases h
  · split at h
    · rename_i c hc
      simp only [] at h
      have hs := idFromCanonical_spec l.graph c inv
      simp only [] at hs
      obtain ⟨h1, h2, ⟨extra, h3⟩, h4, _⟩ := hs
      cases h
      exact ⟨h1, h2, by simp only []; rw [h3]; simp, h4⟩
    · cases h
    · cases h

theorem evalPaths_inv (envs : List Env) (ps : List EvalStr) : ∀ (l l' : Loader) (ids : List Nat),
    GInv l.graph → evalPaths l envs ps = .ok (l', ids) →
    GInv l'.graph ∧ l'.graph.builds = l.graph.builds ∧ l.graph.files.length ≤ l'.graph.files.length ∧
      (∀ i ∈ ids, i < l'.graph.files.length) ∧ l'.rules = l.rules := by
  induction ps with
  | nil =>
    intro l l' ids inv h
    simp only [evalPaths] at h
    cases h
    exact ⟨inv, rfl, Nat.le_refl _, fun i hi => by simp at hi, rfl⟩
  | cons p ps ih =>
    intro l l' ids inv h
    unfold evalPaths at h
    split at h
    · cases h
    · rename_i l1 i hp
      split at h
      · cases h
      · rename_i l2 is hps
        cases h
        obtain ⟨a1, a2, a3, a4⟩ := path_inv l _ l1 i inv hp
        obtain ⟨b1, b2, b3, b4, b5⟩ := ih l1 l' is a1 hps
        refine ⟨b1, by rw [b2, a2], by omega, ?_, ?_⟩
        · intro j hj
          simp at hj
          rcases hj with e | e
          · subst e; omega
          · exact b4 j e
        · rw [b5]
          unfold path at hp
          split at hp
          · cases hp
          · split at hp
            · simp only [] at hp; cases hp; rfl
            · cases hp
            · cases hp

theorem loaderAddBuild_inv (l : Loader) (file : Bytes) (vars : StrMap) (b : PBuild) (l' : Loader)
    (inv : GInv l.graph) (h : loaderAddBuild l file vars b = .ok l') : GInv l'.graph := by
  unfold loaderAddBuild at h
  simp only [] at h
  split at h
  · cases h
  · rename_i l1 ins h1
    split at h
    · cases h
    · rename_i l2 outs h2
      obtain ⟨a1, a2, a3, a4, _⟩ := evalPaths_inv _ _ l l1 ins inv h1
      obtain ⟨b1, b2, b3, b4, _⟩ := evalPaths_inv _ _ l1 l2 outs a1 h2
      split at h
      · cases h
      · split at h
        · cases h
        · split at h
          · cases h
          · split at h
            · cases h
            · rename_i g warned hab
              cases h
              exact (addBuild_inv l2.graph _ g warned b1 (fun i hi => by have := a4 i hi; omega) hab).1

theorem stmtLoop_inv (ie : Bool) (fs : Fs) (file : Bytes) (depth : Nat)
    (sub : Loader → Bytes → Bytes → StrMap → Nat → Except LoadErr (Loader × StrMap))
    (hsub : ∀ l name content vars d l' v', GInv l.graph → sub l name content vars d = .ok (l', v') → GInv l'.graph) :
    ∀ (fuel : Nat) (l : Loader) (sc : Scanner) (vars : StrMap) (l' : Loader) (v' : StrMap),
    GInv l.graph → stmtLoop ie fs file depth sub fuel l sc vars = .ok (l', v') → GInv l'.graph := by
  intro fuel
  induction fuel with
  | zero => intro l sc vars l' v' _ h; simp [stmtLoop] at h
  | succ fuel ih =>
    intro l sc vars l' v' inv h
    unfold stmtLoop at h
    split at h
    · cases h
    · cases h
    · split at h
      · cases h; exact inv
      · exact ih _ _ _ _ _ inv h
      · -- include
        split at h
        · cases h
        · rename_i l1 id hp
          obtain ⟨a1, _⟩ := path_inv l _ l1 id inv hp
          simp only [] at h
          split at h
          · cases h
          · split at h
            · cases h
            · split at h
              · cases h
              · rename_i l2 vars2 hs
                exact ih _ _ _ _ _ (hsub _ _ _ _ _ _ _ a1 hs) h
      · -- subninja
        split at h
        · cases h
        · rename_i l1 id hp
          obtain ⟨a1, _⟩ := path_inv l _ l1 id inv hp
          simp only [] at h
          split at h
          · cases h
          · split at h
            · cases h
            · split at h
              · cases h
              · rename_i l2 vars2 hs
                exact ih _ _ _ _ _ (hsub _ _ _ _ _ _ _ a1 hs) h
      · -- default
        split at h
        · cases h
        · rename_i l1 ids hp
          obtain ⟨a1, _⟩ := evalPaths_inv _ _ l l1 ids inv hp
          exact ih _ _ _ _ _ (show GInv ({ l1 with defaults := l1.defaults ++ ids } : Loader).graph from a1) h
      · refine ih _ _ _ _ _ ?_ h; exact inv
      · split at h
        · cases h
        · rename_i l1 hb
          exact ih _ _ _ _ _ (loaderAddBuild_inv l file vars _ l1 inv hb) h
      · refine ih _ _ _ _ _ ?_ h; exact inv

theorem parseFile_inv (ie : Bool) (fs : Fs) : ∀ (d : Nat) (l : Loader) (file content : Bytes) (vars : StrMap)
    (depth : Nat) (l' : Loader) (v' : StrMap),
    GInv l.graph → parseFile ie fs d l file content vars depth = .ok (l', v') → GInv l'.graph := by
  intro d
  induction d with
  | zero => intro l file content vars depth l' v' _ h; simp [parseFile] at h
  | succ d ih =>
    intro l file content vars depth l' v' inv h
    unfold parseFile at h
    simp only [] at h
    split at h
    · exact stmtLoop_inv ie fs file depth _ (fun l name content vars dd l' v' hi hs => ih l name content vars dd l' v' hi hs)
        _ l _ vars l' v' inv h
    · cases h

/-- **Every loaded manifest yields a consistent graph** — for every file system content, main file
    name, nesting of `include`/`subninja`. -/
theorem load_inv (ie : Bool) (fs : Fs) (main : Bytes) (l : Loader) (h : loadWith ie fs main = .ok l) :
    GInv l.graph := by
  unfold loadWith at h
  split at h
  · cases h
  · split at h
    · rename_i c hc
      simp only [] at h
      split at h
      · cases h
      · rename_i content hfs
        have hs := idFromCanonical_spec {} c ginv_empty
        simp only [] at hs
        cases hp : parseFile ie fs (MAX_INCLUDE_DEPTH + 2) { graph := (idFromCanonical {} c).1 }
            (((idFromCanonical {} c).1.files[(idFromCanonical {} c).2]?.map (·.name)).getD []) content [] 0 with
        | error e => rw [hp] at h; cases h
        | ok r =>
          rw [hp] at h
          cases h
          exact parseFile_inv ie fs _ _ _ _ _ _ r.1 r.2 hs.1 hp
    · cases h

end N2V.Load
