/-
  The want phase marks everything a file needs (the other half of "exactly the requested closure"):
  after `Work::want_file f` succeeds, every build that `f` needs through explicit, implicit,
  order-only or validation inputs has left `Unknown`.

  Invariant: every marked build that is not "open" (still inside its own loop over validation
  inputs) has all producers of its ordering and validation inputs marked.
-/
import N2V.Lemmas.SchedWantTerm
import N2V.Lemmas.SchedClosure
import N2V.Lemmas.RunClean
namespace N2V.Sched

/-- Closed except for the builds in `O`: a marked build outside `O` has every producer of an
    ordering or validation input marked. -/
def ClosedX (g : Graph) (s : S) (O : List Nat) : Prop :=
  ∀ b, b ∉ O → s.st b ≠ .unknown → ∀ f ∈ (g.build b).ordering ++ (g.build b).validation,
    ∀ p, g.producer f = some p → s.st p ≠ .unknown

theorem ClosedX.mono {g : Graph} {s : S} {O O' : List Nat} (h : ClosedX g s O) (hs : ∀ x ∈ O, x ∈ O') :
    ClosedX g s O' := fun b hb => h b (fun hx => hb (hs b hx))

/-- What each function of the want phase establishes on success. -/
def OkF (g : Graph) (O : List Nat) (f : Nat) : WR Bool → Prop
  | .ok _ s' => ClosedX g s' O ∧ ∀ p, g.producer f = some p → s'.st p ≠ .unknown
  | _ => True
def OkB (g : Graph) (O : List Nat) (id : Nat) : WR St → Prop
  | .ok _ s' => ClosedX g s' O ∧ s'.st id ≠ .unknown
  | _ => True
def OkL {α : Type} (g : Graph) (O : List Nat) (fs : List Nat) : WR α → Prop
  | .ok _ s' => ClosedX g s' O ∧ ∀ f ∈ fs, ∀ p, g.producer f = some p → s'.st p ≠ .unknown
  | _ => True

theorem WRKeep.of_ok {α : Type} {Q : S → Prop} {w : WR α} {a : α} {s' : S} (h : WRKeep Q w) (e : w = .ok a s') : Q s' := by
  subst e; exact h

theorem complete_all (g : Graph) : ∀ fuel : Nat,
    (∀ s stack f O, ClosedX g s O → OkF g O f (wantFile g fuel s stack f)) ∧
    (∀ s stack id O, ClosedX g s O → OkB g O id (wantBuild g fuel s stack id)) ∧
    (∀ s stack fs rd O, ClosedX g s O → OkL g O fs (wantIns g fuel s stack fs rd)) ∧
    (∀ s fs O, ClosedX g s O → OkL g O fs (wantVals g fuel s fs)) := by
  intro fuel
  induction fuel with
  | zero => refine ⟨?_, ?_, ?_, ?_⟩ <;> intros <;> simp [wantFile, wantBuild, wantIns, wantVals, OkF, OkB, OkL]
  | succ fuel ih =>
    obtain ⟨ihF, ihB, ihI, ihV⟩ := ih
    refine ⟨?_, ?_, ?_, ?_⟩
    · intro s stack f O hc
      unfold wantFile
      split
      · trivial
      · split
        · rename_i hp
          exact ⟨hc, fun p hp' => by rw [hp] at hp'; cases hp'⟩
        · rename_i bid hp
          have hb := ihB s (stack ++ [f]) bid O hc
          split <;> rename_i hw <;> rw [hw] at hb
          · exact ⟨hb.1, fun p hp' => by rw [hp] at hp'; cases hp'; exact hb.2⟩
          · trivial
          · trivial
    · intro s stack id O hc
      unfold wantBuild
      split
      · rename_i hne
        exact ⟨hc, hne⟩
      · rename_i hunk
        have hu : s.st id = .unknown := by simpa using hunk
        have hi := ihI s stack (g.build id).ordering true O hc
        have hm := (want_mono_all g s fuel).2.2.1 s stack (g.build id).ordering true (Mono.refl s)
        split
        · rename_i rd s1 hins
          rw [hins] at hi hm
          simp only []
          split
          · rename_i s2 hset
            obtain ⟨_, _, -, -, hst2, -⟩ := set_spec hset
            have hid2 : s2.st id ≠ .unknown := by rw [hst2]; unfold upd; cases rd <;> simp
            have m12 : Mono s1 s2 := set_mono (by cases rd <;> simp) hset
            -- after the `set`: closed except for `id` (its validation inputs are still to come)
            have hc2 : ClosedX g s2 (id :: O) := by
              intro b hb hbn f hf p hp
              have hbid : b ≠ id := fun e => hb (by simp [e])
              have hbO : b ∉ O := fun e => hb (by simp [e])
              have hb1 : s1.st b ≠ .unknown := by
                rw [hst2] at hbn; unfold upd at hbn; simpa [hbid] using hbn
              exact m12 p (hi.1 b hbO hb1 f hf p hp)
            have hv := ihV s2 (g.build id).validation (id :: O) hc2
            have hmv := (want_mono_all g s2 fuel).2.2.2 s2 (g.build id).validation (Mono.refl s2)
            split <;> rename_i hw <;> rw [hw] at hv hmv
            · rename_i u s3
              refine ⟨?_, hmv id hid2⟩
              intro b hbO hbn f hf p hp
              by_cases hbid : b = id
              · subst hbid
                rcases List.mem_append.mp hf with hfo | hfv
                · exact hmv p (m12 p (hi.2 f hfo p hp))
                · exact hv.2 f hfv p hp
              · exact hv.1 b (by simp [hbid, hbO]) hbn f hf p hp
            · trivial
            · trivial
          · trivial
          · trivial
        · trivial
        · trivial
    · intro s stack fs rd O hc
      cases fs with
      | nil => simp only [wantIns]; exact ⟨hc, fun f hf => by cases hf⟩
      | cons f fs =>
        simp only [wantIns]
        have hf := ihF s stack f O hc
        split <;> rename_i hw <;> rw [hw] at hf
        · rename_i r s'
          have hrest := ihI s' stack fs (rd && r) O hf.1
          have hm := (want_mono_all g s' fuel).2.2.1 s' stack fs (rd && r) (Mono.refl s')
          cases hw2 : wantIns g fuel s' stack fs (rd && r) with
          | ok r2 s2 =>
            rw [hw2] at hrest hm
            refine ⟨hrest.1, ?_⟩
            intro x hx p hp
            rcases List.mem_cons.mp hx with rfl | hx
            · exact hm p (hf.2 p hp)
            · exact hrest.2 x hx p hp
          | err m s2 => trivial
          | bad m => trivial
        · trivial
        · trivial
    · intro s fs O hc
      cases fs with
      | nil => simp only [wantVals]; exact ⟨hc, fun f hf => by cases hf⟩
      | cons f fs =>
        simp only [wantVals]
        have hf := ihF s [] f O hc
        split <;> rename_i hw <;> rw [hw] at hf
        · rename_i r s'
          have hrest := ihV s' fs O hf.1
          have hm := (want_mono_all g s' fuel).2.2.2 s' fs (Mono.refl s')
          cases hw2 : wantVals g fuel s' fs with
          | ok r2 s2 =>
            rw [hw2] at hrest hm
            refine ⟨hrest.1, ?_⟩
            intro x hx p hp
            rcases List.mem_cons.mp hx with rfl | hx
            · exact hm p (hf.2 p hp)
            · exact hrest.2 x hx p hp
          | err m s2 => trivial
          | bad m => trivial
        · trivial
        · trivial

/-- In a closed state, whatever a marked producer needs is marked. -/
theorem needs_marked {g : Graph} {s : S} (hc : ClosedX g s []) {f b : Nat} (hn : Needs g f b)
    (hf : ∀ p, g.producer f = some p → s.st p ≠ .unknown) : s.st b ≠ .unknown := by
  induction hn with
  | direct hp => exact hf _ hp
  | step _ hin _ ih1 ih2 =>
    have h1 := ih1 hf
    exact ih2 (fun p hp => hc _ (by simp) h1 _ hin p hp)

/-- **`Work::want_file` marks the whole closure**: after it succeeds from a closed state, the
    state is closed again and every build that `f` needs has left `Unknown`. -/
theorem want_complete (g : Graph) (s s' : S) (f : Nat) (hc : ClosedX g s []) (h : want g s f = .ok () s') :
    ClosedX g s' [] ∧ ∀ b, Needs g f b → s'.st b ≠ .unknown := by
  have := (complete_all g (wantFuel g)).1 s [] f [] hc
  unfold want at h
  split at h
  · rename_i r s1 hw
    cases h
    rw [hw] at this
    exact ⟨this.1, fun b hn => needs_marked this.1 hn this.2⟩
  · cases h
  · cases h

end N2V.Sched

namespace N2V.Sched

/-! ### `Work::run` never un-marks a build -/

theorem promote_mono {g : Graph} (l : List Nat) (s s' : S) (h : promote g s l = .ok s') : Mono s s' := by
  induction l generalizing s with
  | nil => simp [promote] at h; subst h; exact Mono.refl s
  | cons d ds ih =>
    unfold promote at h
    split at h
    · rename_i s1 hs; exact (set_mono (by decide) hs).trans (ih s1 h)
    · rename_i hne; exact absurd h (hne s')

theorem readyDependents_mono {g : Graph} {s s' : S} {id : Nat} {perm : List Nat}
    (h : readyDependents g s id perm = .ok s') : Mono s s' := by
  unfold readyDependents at h
  split at h
  · rename_i s1 hs; exact (set_mono (by decide) hs).trans (promote_mono _ s1 s' h)
  · rename_i hne; exact absurd h (hne s')

def stOfRes (s0 : S) : Sum S (S × RunResult) → S
  | .inl s1 => s1
  | .inr (se, _) => se
def stOfStart : Sum (S × Bool) (S × RunResult) → S
  | .inl (s1, _) => s1
  | .inr (se, _) => se
def stOfReady {E : Type} : Sum (S × E × List (List Nat) × Bool) (S × E × RunResult) → S
  | .inl (s1, _, _, _) => s1
  | .inr (se, _, _) => se

theorem resToRun_mono {s0 sa : S} {r : Res S} (hm : Mono sa s0) (hr : ∀ s1, r = .ok s1 → Mono sa s1) :
    Mono sa (stOfRes s0 (resToRun s0 r)) := by
  cases r <;> simp only [resToRun, stOfRes]
  · exact hr _ rfl
  all_goals exact hm

theorem enqueueRun_mono {g : Graph} (s : S) (id : Nat) : Mono s (stOfRes s (enqueueRun g s id)) := by
  unfold enqueueRun
  cases hset : set g s id .queued with
  | ok s1 =>
    simp only []
    have m := set_mono (g := g) (new := .queued) (by decide) hset
    cases modPool s1.pools (g.build id).pool (fun p => { p with queued := p.queued ++ [id] }) with
    | some pools => exact fun b hb => m b hb
    | none => exact m
  | _ => simp only [resToRun, stOfRes]; exact Mono.refl s

theorem startLoop_mono {g : Graph} {par : Nat} (fuel : Nat) : ∀ (s : S) (p : Bool),
    Mono s (stOfStart (startLoop g par fuel s p)) := by
  induction fuel with
  | zero => intro s p; simp only [startLoop, stOfStart]; exact Mono.refl s
  | succ fuel ih =>
    intro s p
    unfold startLoop
    by_cases hlt : s.running < par
    · simp only [hlt, if_true]
      cases hpop : popQueued s.pools with
      | none => simp only [stOfStart]; exact Mono.refl s
      | some x =>
        obtain ⟨id, pools⟩ := x
        simp only []
        cases hset : set g { s with pools := pools } id .running with
        | ok s1 =>
          simp only [resToRun]
          have m1 : Mono s s1 := fun b hb => set_mono (by decide) hset b hb
          have m2 : Mono s { s1 with running := s1.running + 1, trace := Ev.start id :: s1.trace } := m1
          exact Mono.trans m2 (ih _ true)
        | _ => simp only [resToRun, stOfStart]; exact Mono.refl s
    · simp only [hlt, if_false, stOfStart]; exact Mono.refl s

theorem readyLoop_mono {E : Type} {g : Graph} (c : Choices E) (fuel : Nat) : ∀ (s : S) (e : E) (perms : List (List Nat))
    (p : Bool), Mono s (stOfReady (readyLoop g c fuel s e perms p)) := by
  induction fuel with
  | zero => intro s e perms p; simp only [readyLoop, stOfReady]; exact Mono.refl s
  | succ fuel ih =>
    intro s e perms p
    unfold readyLoop
    cases hr : s.ready with
    | nil => simp only [stOfReady]; exact Mono.refl s
    | cons id rest =>
      simp only []
      have m0 : Mono s { s with ready := rest } := fun _ h => h
      cases hchk : c.check e id with
      | mk d e1 =>
        cases d with
        | none => simp only [stOfReady]; exact m0
        | some dirty =>
          simp only []
          have hrd : ∀ (e2 : E) (pm : List (List Nat)),
              Mono s (stOfReady (match resToRun { s with ready := rest } (readyDependents g { s with ready := rest } id (perms.headD [])) with
                | .inl s1 => readyLoop g c fuel s1 e2 pm true
                | .inr (se, r) => .inr (se, e1, r))) := by
            intro e2 pm
            cases hres : readyDependents g { s with ready := rest } id (perms.headD []) with
            | ok s1 =>
              simp only [resToRun]
              exact Mono.trans (fun b hb => readyDependents_mono hres b hb) (ih s1 e2 pm true)
            | _ => simp only [resToRun, stOfReady]; exact m0
          by_cases hd : (!dirty) = true
          · simp only [hd, if_true]; exact hrd e1 perms.tail
          · simp only [hd, Bool.false_eq_true, if_false]
            by_cases had : c.adopt = true
            · simp only [had, if_true]; exact hrd (c.onAdopt e1 id) perms.tail
            · simp only [had, Bool.false_eq_true, if_false]
              have hq := enqueueRun_mono (g := g) { s with ready := rest } id
              cases hen : enqueueRun g { s with ready := rest } id with
              | inl s1 =>
                rw [hen] at hq
                simp only []
                exact Mono.trans (fun b hb => hq b hb) (ih s1 e1 perms true)
              | inr x =>
                obtain ⟨se, r⟩ := x
                rw [hen] at hq
                simp only [stOfReady]
                exact fun b hb => hq b hb

end N2V.Sched

namespace N2V.Sched

theorem runLoop_mono {E : Type} {g : Graph} {par : Nat} (c : Choices E) (fuel : Nat) : ∀ (s : S) (e : E)
    (perms : List (List Nat)) (fin : List (Nat × Term)), Mono s (runLoop g par c fuel s e perms fin).s := by
  induction fuel with
  | zero => intro s e perms fin; exact Mono.refl s
  | succ fuel ih =>
    intro s e perms fin
    unfold runLoop
    by_cases hp : s.pending ≤ 0
    · simp only [hp, if_true]; exact Mono.refl s
    · simp only [hp, if_false]
      have m0 : Mono s { s with trace := Ev.update (countsList s.counts) :: s.trace } := fun _ h => h
      have h1 := startLoop_mono (g := g) (par := par) (g.nBuilds + 1) { s with trace := Ev.update (countsList s.counts) :: s.trace } false
      cases hs1 : startLoop g par (g.nBuilds + 1) { s with trace := Ev.update (countsList s.counts) :: s.trace } false with
      | inr r =>
        obtain ⟨se, rr⟩ := r
        rw [hs1] at h1
        exact m0.trans h1
      | inl r =>
        obtain ⟨s1, p1⟩ := r
        rw [hs1] at h1
        simp only []
        have m1 : Mono s s1 := m0.trans h1
        have h2 := readyLoop_mono (g := g) c (g.nBuilds + 1) s1 e perms false
        cases hs2 : readyLoop g c (g.nBuilds + 1) s1 e perms false with
        | inr r =>
          obtain ⟨se, e2, rr⟩ := r
          rw [hs2] at h2
          exact m1.trans h2
        | inl r =>
          obtain ⟨s2, e2, perms2, p2⟩ := r
          rw [hs2] at h2
          simp only []
          have m2 : Mono s s2 := m1.trans h2
          by_cases hpp : (p1 || p2) = true
          · simp only [hpp, if_true]; exact m2.trans (ih _ _ _ _)
          · simp only [hpp, Bool.false_eq_true, if_false]
            by_cases hrun : s2.running ≤ 0
            · simp only [hrun, if_true]; split <;> exact m2
            · simp only [hrun, if_false]
              cases fin with
              | nil => exact m2
              | cons ft fin' =>
                obtain ⟨id, t⟩ := ft
                simp only []
                by_cases hst : s2.st id ≠ .running
                · rw [if_pos hst]; exact m2
                · rw [if_neg hst]
                  have m3 : Mono s { s2 with running := s2.running - 1, trace := Ev.finish id t :: s2.trace } := m2
                  have stepSet : ∀ (s0x sx : S) (new : St), Mono s s0x → Mono s sx → new ≠ .unknown →
                      Mono s (match resToRun s0x (set g sx id new) with
                        | .inl s4 => (runLoop g par c fuel s4 e2 perms2 fin')
                        | .inr (se, r) => ⟨se, e2, r, perms2, fin'⟩).s := by
                    intro s0x sx new hm0 hm hn
                    cases hset : set g sx id new with
                    | ok s4 =>
                      simp only [resToRun]
                      exact (hm.trans (set_mono hn hset)).trans (ih _ _ _ _)
                    | _ => simp only [resToRun]; exact hm0
                  cases t with
                  | interrupted => exact m3
                  | failure =>
                    simp only []
                    cases hfl : s2.failuresLeft with
                    | none =>
                      simp only []
                      exact stepSet _ _ .failed (fun b hb => m3 b hb) (fun b hb => m3 b hb) (by decide)
                    | some n =>
                      simp only []
                      by_cases hn0 : n = 0
                      · rw [if_pos hn0]; exact m3
                      · rw [if_neg hn0]
                        by_cases hn1 : n - 1 = 0
                        · rw [if_pos hn1]; exact fun b hb => m3 b hb
                        · rw [if_neg hn1]
                          exact stepSet _ _ .failed (fun b hb => m3 b hb) (fun b hb => m3 b hb) (by decide)
                  | success =>
                    simp only []
                    cases hrd : readyDependents g { { s2 with running := s2.running - 1, trace := Ev.finish id .success :: s2.trace } with
                        tasksRun := s2.tasksRun + 1 } id (perms2.headD []) with
                    | ok s4 =>
                      simp only [resToRun]
                      have m4 : Mono s s4 := fun b hb => readyDependents_mono hrd b (m3 b hb)
                      exact m4.trans (ih _ _ _ _)
                    | _ => simp only [resToRun]; exact m3

end N2V.Sched

namespace N2V.Run
open N2V N2V.Sched

theorem closed_of_unk {g : Graph} {s s' : S} {O : List Nat} (h : ClosedX g s O)
    (h1 : Mono s s') (h2 : Keeps s s') : ClosedX g s' O := by
  intro b hb hbn f hf p hp
  exact h1 p (h b hb (h2 b hbn) f hf p hp)

theorem want_mono (g : Graph) (s s' : S) (f : Nat) (h : want g s f = .ok () s') : Mono s s' := by
  have := (want_mono_all g s (wantFuel g)).1 s [] f (Mono.refl s)
  unfold want at h
  split at h
  · rename_i r s1 hw; cases h; rw [hw] at this; exact this
  · cases h
  · cases h

theorem wantAll_complete (g : Graph) (fs : List Nat) : ∀ (s s' : S), ClosedX g s [] → wantAll g s fs = .ok () s' →
    ClosedX g s' [] ∧ Mono s s' ∧ ∀ f ∈ fs, ∀ b, Needs g f b → s'.st b ≠ .unknown := by
  induction fs with
  | nil => intro s s' hc h; simp [wantAll] at h; subst h; exact ⟨hc, Mono.refl _, fun f hf => by cases hf⟩
  | cons f fs ih =>
    intro s s' hc h
    unfold wantAll at h
    split at h
    · rename_i s1 hw
      obtain ⟨c1, n1⟩ := want_complete g s s1 f hc hw
      obtain ⟨c2, m2, n2⟩ := ih s1 s' c1 h
      refine ⟨c2, (want_mono g s s1 f hw).trans m2, ?_⟩
      intro x hx b hn
      rcases List.mem_cons.mp hx with rfl | hx
      · exact m2 b (n1 b hn)
      · exact n2 x hx b hn
    · rename_i r hne
      cases hw : want g s f with
      | ok u s1 => exact absurd hw (hne u s1)
      | err m s1 => rw [hw] at h; cases h
      | bad m => rw [hw] at h; cases h

theorem wantTargets_complete (g : Graph) (a : Args) (ns : List Bytes) : ∀ (s s' : S), ClosedX g s [] →
    wantTargets g a s ns = .ok () s' →
    ClosedX g s' [] ∧ Mono s s' ∧ ∀ n ∈ ns, ∀ t, lookupM g a n = .ok (some t) → t ≠ a.manifest →
      ∀ b, Needs g t b → s'.st b ≠ .unknown := by
  induction ns with
  | nil => intro s s' hc h; simp [wantTargets] at h; subst h; exact ⟨hc, Mono.refl _, fun n hn => by cases hn⟩
  | cons n ns ih =>
    intro s s' hc h
    unfold wantTargets at h
    split at h
    · rename_i hl
      split at h
      · obtain ⟨c2, m2, n2⟩ := ih s s' hc h
        refine ⟨c2, m2, ?_⟩
        intro x hx t ht hne b hb
        rcases List.mem_cons.mp hx with rfl | hx
        · rw [hl] at ht; cases ht
        · exact n2 x hx t ht hne b hb
      · cases h
    · rename_i t hl
      split at h
      · rename_i htm
        obtain ⟨c2, m2, n2⟩ := ih s s' hc h
        refine ⟨c2, m2, ?_⟩
        intro x hx t' ht hne b hb
        rcases List.mem_cons.mp hx with rfl | hx
        · rw [hl] at ht; cases ht; exact absurd htm hne
        · exact n2 x hx t' ht hne b hb
      · split at h
        · rename_i s1 hw
          obtain ⟨c1, n1⟩ := want_complete g s s1 t hc hw
          obtain ⟨c2, m2, n2⟩ := ih s1 s' c1 h
          refine ⟨c2, (want_mono g s s1 t hw).trans m2, ?_⟩
          intro x hx t' ht hne b hb
          rcases List.mem_cons.mp hx with rfl | hx
          · rw [hl] at ht; cases ht; exact m2 b (n1 b hb)
          · exact n2 x hx t' ht hne b hb
        · rename_i r hne
          cases hw : want g s t with
          | ok u s1 => exact absurd hw (hne u s1)
          | err m s1 => rw [hw] at h; cases h
          | bad m => rw [hw] at h; cases h
    · cases h
    · cases h

/-- **A successful `run::build` marked its whole requested closure**: every build that a
    requested file (the manifest; the command-line names that resolve, else the defaults, else
    every file) needs through ordering or validation inputs has left `Unknown`. -/
theorem build_complete {E : Type} {g : Graph} (gok : GraphOK g) (a : Args) (c : Choices E) (e : E) (n : Nat)
    (h : (build g a c e).2.2 = .done n) (b : Nat) (hW : Wanted g a b) : (build g a c e).1.st b ≠ .unknown := by
  obtain ⟨f, hreq, hneeds⟩ := hW
  revert h
  unfold build
  simp only []
  have hc0 : ClosedX g (fresh a) [] := by intro b _ hb; simp [fresh, init] at hb
  have hrel := want_rel gok (fresh a) a.manifest (fresh_inv g a)
  cases hwm : want g (fresh a) a.manifest with
  | ok u s1 =>
    rw [hwm] at hrel
    simp only []
    obtain ⟨c1, n1⟩ := want_complete g (fresh a) s1 a.manifest hc0 hwm
    have mr1 := runLoop_mono (g := g) (par := a.par) c (runFuel g) s1 e c.perms c.finishes
    have kr1 := runLoop_keeps c (runFuel g) s1 e c.perms c.finishes hrel.inv
    have c1' := closed_of_unk c1 mr1 kr1
    cases hres : (runLoop g a.par c (runFuel g) s1 e c.perms c.finishes).result with
    | ok bb =>
      cases bb with
      | true =>
        simp only []
        split
        · intro h; cases h
        · unfold phase2
          simp only []
          generalize hs2 : (runLoop g a.par c (runFuel g) s1 e c.perms c.finishes).s = s2 at c1' mr1
          generalize hw : (if !a.targets.isEmpty then wantTargets g a s2 a.targets
               else if !a.defaults.isEmpty then wantAll g s2 a.defaults
               else wantAll g s2 ((List.range g.nFiles).filter (· ≠ a.manifest))) = w
          cases w with
          | ok u3 s3 =>
            simp only []
            have mr3 := runLoop_mono (g := g) (par := a.par) c (runFuel g) s3 (runLoop g a.par c (runFuel g) s1 e c.perms c.finishes).e
              (runLoop g a.par c (runFuel g) s1 e c.perms c.finishes).perms (runLoop g a.par c (runFuel g) s1 e c.perms c.finishes).finishes
            -- marked at `s3`
            have hmark : s3.st b ≠ .unknown := by
              have hman : ∀ s', Mono s2 s' → s'.st b ≠ .unknown → s'.st b ≠ .unknown := fun _ _ h => h
              by_cases hfm : f = a.manifest
              · -- needed by the manifest: marked in the first phase
                have m23 : Mono s2 s3 := by
                  revert hw
                  split
                  · intro hw; exact (wantTargets_complete g a _ s2 s3 c1' hw).2.1
                  · split
                    · intro hw; exact (wantAll_complete g _ s2 s3 c1' hw).2.1
                    · intro hw; exact (wantAll_complete g _ s2 s3 c1' hw).2.1
                exact m23 b (mr1 b (n1 b (hfm ▸ hneeds)))
              · rcases hreq with h0 | ⟨nm, hnm, hl⟩ | ⟨hte, hfd⟩ | ⟨hte, hde, hlt⟩
                · exact absurd h0 hfm
                · have htne : (!a.targets.isEmpty) = true := by
                    cases ht : a.targets with
                    | nil => rw [ht] at hnm; cases hnm
                    | cons _ _ => rfl
                  rw [if_pos htne] at hw
                  exact (wantTargets_complete g a _ s2 s3 c1' hw).2.2 nm hnm f hl hfm b hneeds
                · have : (!a.targets.isEmpty) = false := by rw [hte]; rfl
                  rw [if_neg (by rw [this]; simp)] at hw
                  have hdne : (!a.defaults.isEmpty) = true := by
                    cases hd : a.defaults with
                    | nil => rw [hd] at hfd; cases hfd
                    | cons _ _ => rfl
                  rw [if_pos hdne] at hw
                  exact (wantAll_complete g _ s2 s3 c1' hw).2.2 f hfd b hneeds
                · have h1 : (!a.targets.isEmpty) = false := by rw [hte]; rfl
                  have h2 : (!a.defaults.isEmpty) = false := by rw [hde]; rfl
                  rw [if_neg (by rw [h1]; simp), if_neg (by rw [h2]; simp)] at hw
                  exact (wantAll_complete g _ s2 s3 c1' hw).2.2 f (by simp [hlt, hfm]) b hneeds
            cases hres2 : (runLoop g a.par c (runFuel g) s3 (runLoop g a.par c (runFuel g) s1 e c.perms c.finishes).e
                (runLoop g a.par c (runFuel g) s1 e c.perms c.finishes).perms
                (runLoop g a.par c (runFuel g) s1 e c.perms c.finishes).finishes).result with
            | ok bb2 =>
              cases bb2 with
              | true => simp only []; intro _; exact mr3 b hmark
              | false => simp only [ofRun]; intro h; cases h
            | _ => simp only [ofRun]; intro h; cases h
          | err m s3 => simp only []; intro h; cases h
          | bad m => simp only []; intro h; cases h
      | false => simp only [ofRun]; intro h; cases h
    | _ => simp only [ofRun]; intro h; cases h
  | err m s1 => simp only []; intro h; cases h
  | bad m => simp only []; intro h; cases h

end N2V.Run
