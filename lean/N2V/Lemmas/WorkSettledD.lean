/-
  The joint invariant of scheduler state and environment for projects WITH discovered
  dependencies (depfile / deps = msvc): the generalisation of `JS` (Lemmas/WorkSettled).
  Hypothesis carried as a premise of the invariant: the discovered dependencies of finished steps
  are source files (`GoodD`).
-/
import N2V.Lemmas.WorkRecordD
import N2V.Lemmas.WorkSettled
namespace N2V.Work
open N2V N2V.Load N2V.Sched

/-! ### Unique names -/

def UniqueNames (g : GraphM) : Prop :=
  ∀ (i j : Nat) (fi fj : FileM), g.files[i]? = some fi → g.files[j]? = some fj → fi.name = fj.name → i = j

theorem GInv.uniqueNames {g : GraphM} (inv : GInv g) : UniqueNames g := inv.names

theorem idFromCanonical_unique (g : GraphM) (n : Bytes) (h : UniqueNames g) : UniqueNames (idFromCanonical g n).1 := by
  unfold idFromCanonical
  cases hf : g.files.findIdx? (fun f => f.name == n) with
  | some i => exact h
  | none =>
    simp only []
    have hnone : ∀ x ∈ g.files, x.name ≠ n := by
      intro x hx
      have := List.findIdx?_eq_none_iff.mp hf x hx
      simpa using this
    intro i j fi fj hi hj hname
    simp only [] at hi hj
    by_cases hil : i < g.files.length
    · rw [List.getElem?_append_left hil] at hi
      by_cases hjl : j < g.files.length
      · rw [List.getElem?_append_left hjl] at hj
        exact h i j fi fj hi hj hname
      · rw [List.getElem?_append_right (by omega)] at hj
        have : fj.name = n := by
          cases hk : j - g.files.length with
          | zero => rw [hk] at hj; simp at hj; rw [← hj]
          | succ k => rw [hk] at hj; simp at hj
        exact absurd (hname.trans this) (hnone fi (List.mem_of_getElem? hi))
    · rw [List.getElem?_append_right (by omega)] at hi
      have hin : fi.name = n ∧ i = g.files.length := by
        cases hk : i - g.files.length with
        | zero => rw [hk] at hi; simp at hi; exact ⟨by rw [← hi], by omega⟩
        | succ k => rw [hk] at hi; simp at hi
      by_cases hjl : j < g.files.length
      · rw [List.getElem?_append_left hjl] at hj
        exact absurd (hname.symm.trans hin.1) (hnone fj (List.mem_of_getElem? hj))
      · rw [List.getElem?_append_right (by omega)] at hj
        have : j = g.files.length := by
          cases hk : j - g.files.length with
          | zero => omega
          | succ k => rw [hk] at hj; simp at hj
        omega

theorem keepDeps_unique (dirtying : List Nat) (ns : List Bytes) : ∀ (e : Env) (acc : List Nat),
    UniqueNames e.g → UniqueNames (keepDeps e dirtying ns acc).1.g := by
  induction ns with
  | nil => intro e acc h; exact h
  | cons n ns ih =>
    intro e acc h
    unfold keepDeps
    split
    · exact ih e acc h
    · split
      · rename_i c hc
        have hu : UniqueNames (intern e c).1.g := idFromCanonical_unique e.g c h
        split
        · exact ih _ _ hu
        · exact ih _ _ hu
      · exact ih e acc h

theorem recordFinished_unique (e : Env) (b : Nat) (deps : Option (List Bytes)) (h : UniqueNames e.g) :
    UniqueNames (recordFinished e b deps).g := by
  unfold recordFinished
  split
  · exact h
  · rename_i bm hb
    have hg : (restat e bm b deps).2.2.g = (keepDeps e bm.dirtying (deps.getD []) []).1.g := by
      unfold restat
      simp only []
      rw [(statAllOutputs_same _ bm.outs).g, (statFold_same _ _).g]
    have hu := keepDeps_unique bm.dirtying (deps.getD []) e [] h
    simp only []
    split
    · rw [hg]; exact hu
    · show UniqueNames (restat e bm b deps).2.2.g
      rw [hg]; exact hu

theorem internAll_unique (ns : List Bytes) : ∀ (e : Env), UniqueNames e.g → UniqueNames (internAll e ns).1.g := by
  have key : ∀ (ns : List Bytes) (e : Env) (ids : List Nat), UniqueNames e.g →
      UniqueNames (ns.foldl (fun (acc : Env × List Nat) n =>
        let (e', i) := intern acc.1 n
        (e', acc.2 ++ [i])) (e, ids)).1.g := by
    intro ns
    induction ns with
    | nil => intro e ids h; exact h
    | cons n ns ih =>
      intro e ids h
      simp only [List.foldl_cons]
      exact ih (intern e n).1 _ (idFromCanonical_unique e.g n h)
  intro e h
  exact key ns e [] h

theorem applyLog_unique (rs : List Rec) : ∀ (e : Env), UniqueNames e.g → UniqueNames (applyLog e rs).g := by
  induction rs with
  | nil => intro e h; exact h
  | cons r rs ih =>
    intro e h
    rw [applyLog_cons]
    split
    · apply ih; exact internAll_unique r.deps e h
    · exact ih e h

/-- With unique names, the producer of a name is the producer of the file carrying it. -/
theorem producerByName_unique (g : GraphM) (hu : UniqueNames g) (f : Nat) (hf : f < g.files.length) :
    producerByName g (fileName g f) = fileInput g f := by
  have hfm : g.files[f]? = some g.files[f] := List.getElem?_eq_getElem hf
  have hname : fileName g f = g.files[f].name := by unfold fileName; rw [hfm]; rfl
  unfold producerByName fileInput
  rw [hname, hfm]
  have hmem : g.files[f] ∈ g.files := List.getElem_mem hf
  cases hfind : g.files.find? (fun x => x.name == g.files[f].name) with
  | none =>
    have := List.find?_eq_none.mp hfind _ hmem
    simp at this
  | some fm' =>
    have hp := List.find?_some hfind
    obtain ⟨i, hi, hget⟩ := List.getElem_of_mem (List.mem_of_find?_eq_some hfind)
    have hi' : g.files[i]? = some fm' := by rw [List.getElem?_eq_getElem hi, hget]
    have : i = f := hu i f fm' g.files[f] hi' hfm (by simpa using hp)
    subst this
    rw [hfm] at hi'
    cases hi'
    rfl

theorem Ext.fileInput_old {g g' : GraphM} (h : Ext g g') (f : Nat) (hf : f < g.files.length) :
    fileInput g' f = fileInput g f := by
  unfold fileInput; rw [h.file_old f hf]

/-- Files beyond the original ones are sources. -/
theorem Ext.fileInput_new {g g' : GraphM} (h : Ext g g') (f : Nat) (hf : g.files.length ≤ f) :
    fileInput g' f = none := by
  obtain ⟨x, hx, hn⟩ := h.files
  unfold fileInput
  rw [hx, List.getElem?_append_right hf]
  cases hk : x[f - g.files.length]? with
  | none => rfl
  | some fm => simp only [Option.bind_some]; exact hn fm (List.mem_of_getElem? hk)

theorem Ext.buildOf {g g' : GraphM} (h : Ext g g') (b : Nat) : buildOf g' b = buildOf g b := by
  unfold Work.buildOf; rw [h.builds]

/-! ### Which cache entries a stat round can add -/

def KeysIn (e e' : Env) (K : Nat → Prop) : Prop := ∀ f, Cached e' f → Cached e f ∨ K f

theorem KeysIn.refl (e : Env) (K : Nat → Prop) : KeysIn e e K := fun _ h => Or.inl h

theorem KeysIn.trans {a b c : Env} {K : Nat → Prop} (h1 : KeysIn a b K) (h2 : KeysIn b c K) : KeysIn a c K := by
  intro f hf
  rcases h2 f hf with h | h
  · exact h1 f h
  · exact Or.inr h

theorem KeysIn.mono {a b : Env} {K K' : Nat → Prop} (h : KeysIn a b K) (hk : ∀ f, K f → K' f) : KeysIn a b K' := by
  intro f hf
  rcases h f hf with h | h
  · exact Or.inl h
  · exact Or.inr (hk f h)

theorem statFile_keys (e : Env) (f : Nat) : KeysIn e (statFile e f).2 (· = f) := by
  intro x hx
  by_cases hxf : x = f
  · exact Or.inr hxf
  · left
    unfold Cached at hx ⊢
    simp only [statFile] at hx
    rw [assocGet_put_other _ _ _ _ hxf] at hx
    exact hx

theorem ensureInputs_keys (l : List Nat) : ∀ (e e' : Env) (r : Option Nat), ensureInputs e l = .ok (r, e') →
    KeysIn e e' (· ∈ l) := by
  induction l with
  | nil => intro e e' r h; unfold ensureInputs at h; cases h; exact KeysIn.refl _ _
  | cons f fs ih =>
    intro e e' r h
    unfold ensureInputs at h
    split at h
    · split at h
      · cases h; exact KeysIn.refl _ _
      · exact (ih e e' r h).mono (fun x hx => by simp [hx])
    · split at h
      · cases h
      · simp only [] at h
        split at h
        · cases h
          exact (statFile_keys e f).mono (fun x hx => by simp [hx])
        · exact ((statFile_keys e f).mono (fun x hx => by simp [hx])).trans
            ((ih _ e' r h).mono (fun x hx => by simp [hx]))

theorem statAllOutputs_keys (outs : List Nat) (e : Env) : KeysIn e (statAllOutputs e outs).2 (· ∈ outs) := by
  unfold statAllOutputs
  have key : ∀ (l : List Nat) (acc : Option Nat × Env),
      KeysIn acc.2 (l.foldl (fun (acc : Option Nat × Env) o =>
        let (m, e') := statFile acc.2 o
        (if m.isNone && acc.1.isNone then some o else acc.1, e')) acc).2 (· ∈ l) := by
    intro l
    induction l with
    | nil => intro acc; exact KeysIn.refl _ _
    | cons o os ih =>
      intro acc
      simp only [List.foldl_cons]
      exact ((statFile_keys acc.2 o).mono (fun x hx => by simp [hx])).trans
        ((ih ((if (statFile acc.2 o).1.isNone && acc.1.isNone then some o else acc.1), (statFile acc.2 o).2)).mono
          (fun x hx => by simp [hx]))
  exact key outs (none, e)

theorem statFold_keys (l : List Nat) (e : Env) :
    KeysIn e (l.foldl (fun (acc : Bool × Env) f => let (m, e') := statFile acc.2 f; (acc.1 || m.isNone, e')) (false, e)).2 (· ∈ l) := by
  have key : ∀ (l : List Nat) (acc : Bool × Env),
      KeysIn acc.2 (l.foldl (fun (acc : Bool × Env) f => let (m, e') := statFile acc.2 f; (acc.1 || m.isNone, e')) acc).2 (· ∈ l) := by
    intro l
    induction l with
    | nil => intro acc; exact KeysIn.refl _ _
    | cons o os ih =>
      intro acc
      simp only [List.foldl_cons]
      exact ((statFile_keys acc.2 o).mono (fun x hx => by simp [hx])).trans
        ((ih (acc.1 || (statFile acc.2 o).1.isNone, (statFile acc.2 o).2)).mono (fun x hx => by simp [hx]))
  exact key l (false, e)

theorem checkDirty_keys (e : Env) (b : Nat) (bm : BuildM) (hb : buildOf e.g b = some bm) :
    KeysIn e (checkDirty e b).2 (· ∈ bm.dirtying ++ discOf e b ++ bm.outs) := by
  have hfm : KeysIn e (filesMissing e bm b).1 (· ∈ bm.dirtying ++ discOf e b ++ bm.outs) := by
    unfold filesMissing
    split
    · exact KeysIn.refl _ _
    · rename_i missing e1 h1
      exact (ensureInputs_keys _ _ _ _ h1).mono (fun x hx => by simp [hx])
    · rename_i e1 h1
      have k1 := (ensureInputs_keys _ _ _ _ h1).mono (K' := (· ∈ bm.dirtying ++ discOf e b ++ bm.outs)) (fun x hx => by simp [hx])
      have hd : discOf e1 b = discOf e b := by unfold discOf; rw [(ensureInputs_same _ _ _ _ h1).disc]
      split
      · exact k1
      · rename_i e2 h2
        exact k1.trans ((ensureInputs_keys _ _ _ _ h2).mono (fun x hx => by rw [hd] at hx; simp [hx]))
      · rename_i e2 h2
        exact (k1.trans ((ensureInputs_keys _ _ _ _ h2).mono (fun x hx => by rw [hd] at hx; simp [hx]))).trans
          ((statAllOutputs_keys bm.outs e2).mono (fun x hx => by simp [hx]))
  unfold checkDirty
  rw [hb]
  simp only []
  split
  · exact (statAllOutputs_keys bm.outs e).mono (fun x hx => by simp [hx])
  · split
    · exact hfm
    · exact hfm
    · split <;> exact hfm

theorem recordFinished_keys (e : Env) (b : Nat) (bm : BuildM) (hb : buildOf e.g b = some bm) (deps : Option (List Bytes)) :
    KeysIn e (recordFinished e b deps) (· ∈ bm.dirtying ++ discOf (recordFinished e b deps) b ++ bm.outs) := by
  obtain ⟨_, _, _, _, k5, _⟩ := keepDeps_frame bm.dirtying (deps.getD []) e []
  generalize hkd : keepDeps e bm.dirtying (deps.getD []) [] = kd at k5
  let e2 : Env := { kd.1 with disc := assocPut kd.1.disc b kd.2 }
  let st := (bm.dirtying ++ kd.2).foldl (fun (acc : Bool × Env) f => let (m, e') := statFile acc.2 f; (acc.1 || m.isNone, e')) (false, e2)
  let r := (statAllOutputs st.2 bm.outs).2
  have hrestat : restat e bm b deps = (st.1, (statAllOutputs st.2 bm.outs).1, r) := by
    unfold restat; simp only [hkd]; rfl
  have hsame : SameButCache e2 r := (statFold_same e2 _).trans (statAllOutputs_same st.2 bm.outs)
  have hdiscb : discOf r b = kd.2 := by
    unfold discOf; rw [hsame.disc]; simp [e2, assocGet_put_self]
  have hk : KeysIn e r (· ∈ bm.dirtying ++ discOf r b ++ bm.outs) := by
    have k0 : KeysIn e e2 (· ∈ bm.dirtying ++ discOf r b ++ bm.outs) := by
      intro f hf; left; unfold Cached at hf ⊢; rw [← k5]; exact hf
    have k1 : KeysIn e2 st.2 (· ∈ bm.dirtying ++ discOf r b ++ bm.outs) :=
      (statFold_keys (bm.dirtying ++ kd.2) e2).mono (fun x hx => by rw [hdiscb]; simp at hx ⊢; rcases hx with h | h <;> simp [h])
    have k2 : KeysIn st.2 r (· ∈ bm.dirtying ++ discOf r b ++ bm.outs) :=
      (statAllOutputs_keys bm.outs st.2).mono (fun x hx => by simp [hx])
    exact (k0.trans k1).trans k2
  unfold recordFinished
  rw [hb]
  simp only [hrestat]
  split
  · exact hk
  · exact hk

/-! ### The invariant -/

structure PlainD (g : GraphM) : Prop where
  noRw : ∀ b bm, buildOf g b = some bm → isRw bm = false
  outsNe : ∀ b bm, buildOf g b = some bm → bm.outs ≠ []

def AllPresentD (e : Env) (bm : BuildM) (b : Nat) : Prop :=
  ∀ f ∈ bm.dirtying ++ discOf e b ++ bm.outs, (mtimeOf e f).isSome = true

/-- The discovered dependencies of finished steps are source files. -/
def GoodD (s : S) (e : Env) : Prop := ∀ b, s.st b = .done → ∀ f ∈ discOf e b, fileInput e.g f = none

/-- What start-up attached to the steps (`applyLog_spec`). -/
structure Loaded0 (e0 : Env) : Prop where
  rem : ∀ b r, lastRec e0.g b e0.log none = some r → Remembers e0 b r
  norec : ∀ b, lastRec e0.g b e0.log none = none → assocGet e0.hashes b = none ∧ discOf e0 b = []

theorem Loaded0.ids {e0 : Env} (h : Loaded0 e0) (b : Nat) : ∀ f ∈ discOf e0 b, f < e0.g.files.length := by
  intro f hf
  cases hl : lastRec e0.g b e0.log none with
  | none => rw [(h.norec b hl).2] at hf; cases hf
  | some r => exact (h.rem b r hl).2.1 f hf

structure JD (e0 : Env) (s : S) (e : Env) : Prop where
  ext : Ext e0.g e.g
  uniq : UniqueNames e.g
  hashes : e.hashes = e0.hashes
  logPre : e0.log <+: e.log
  newRecs : ∀ r ∈ newLog e0 e, ∃ b bm, s.st b = .done ∧ buildOf e0.g b = some bm ∧ r.outs = bm.outs.map (fileName e0.g)
  discKeep : ∀ b, s.st b ≠ .done → discOf e b = discOf e0 b
  discIds : ∀ b, ∀ f ∈ discOf e b, f < e.g.files.length
  keys : ∀ f, Cached e f → f < e.g.files.length
  cache : ∀ f m, assocGet e.cache f = some m →
    m = mtimeOf e f ∨ ∃ p, fileInput e.g f = some p ∧ s.st p ≠ .done
  stable : ∀ b bm, s.st b = .done → buildOf e0.g b = some bm →
    ∀ f ∈ bm.dirtying, ∀ p, fileInput e0.g f = some p → s.st p = .done
  settled : ∀ b bm, s.st b = .done → buildOf e0.g b = some bm → bm.cmdline.isNone = false → AllPresentD e bm b →
    ∃ r, lastRec e0.g b e.log none = some r ∧ r.hash = manifestFs e bm b ∧ r.deps = (discOf e b).map (fileName e.g)

/-- The invariant under its premise. -/
def JG (e0 : Env) (s : S) (e : Env) : Prop := GoodD s e → JD e0 s e

theorem JD.ext' {e0 : Env} {s s' : S} {e : Env} (d : DoneEq s s') (j : JD e0 s e) : JD e0 s' e := by
  refine ⟨j.ext, j.uniq, j.hashes, j.logPre, ?_, ?_, j.discIds, j.keys, ?_, ?_, ?_⟩
  · intro r hr
    obtain ⟨b, bm, h1, h2, h3⟩ := j.newRecs r hr
    exact ⟨b, bm, (d b).mpr h1, h2, h3⟩
  · intro b hb; exact j.discKeep b (fun h => hb ((d b).mpr h))
  · intro f m hm
    rcases j.cache f m hm with h | ⟨p, hp, hnd⟩
    · exact Or.inl h
    · exact Or.inr ⟨p, hp, fun h => hnd ((d p).mp h)⟩
  · intro b bm hb hbm f hf p hp
    exact (d p).mpr (j.stable b bm ((d b).mp hb) hbm f hf p hp)
  · intro b bm hb hbm hnp hall
    exact j.settled b bm ((d b).mp hb) hbm hnp hall

theorem JG.ext' {e0 : Env} {s s' : S} {e : Env} (d : DoneEq s s') (j : JG e0 s e) : JG e0 s' e := by
  intro hg
  exact (j (fun b hb f hf => hg b ((d b).mpr hb) f hf)).ext' d

theorem fileInput_lt (g : GraphM) (f p : Nat) (h : fileInput g f = some p) : f < g.files.length := by
  unfold fileInput at h
  cases hf : g.files[f]? with
  | none => rw [hf] at h; cases h
  | some _ => exact (List.getElem?_eq_some_iff.mp hf).1

/-- A producer seen in the grown graph is a producer in the loaded one. -/
theorem JD.input_old {e0 : Env} {s : S} {e : Env} (j : JD e0 s e) (f p : Nat) (h : fileInput e.g f = some p) :
    f < e0.g.files.length ∧ fileInput e0.g f = some p := by
  by_cases hf : f < e0.g.files.length
  · exact ⟨hf, by rw [← j.ext.fileInput_old f hf]; exact h⟩
  · rw [j.ext.fileInput_new f (by omega)] at h; cases h

theorem allPresentD_same {e e' : Env} (h : SameButCache e e') (bm : BuildM) (b : Nat) :
    AllPresentD e' bm b ↔ AllPresentD e bm b := by
  unfold AllPresentD
  have hd : discOf e' b = discOf e b := by unfold discOf; rw [h.disc]
  rw [hd]
  constructor
  · intro h1 f hf; rw [← mtimeOf_same h]; exact h1 f hf
  · intro h1 f hf; rw [mtimeOf_same h]; exact h1 f hf

theorem jd_check (e0 : Env) (inv0 : GInv e0.g) {s : S} {e : Env} (b : Nat) (j : JD e0 s e) : JD e0 s (checkDirty e b).2 := by
  have st := checkDirty_stat e b
  have hd : ∀ x, discOf (checkDirty e b).2 x = discOf e x := by intro x; unfold discOf; rw [st.disc]
  refine ⟨by rw [st.g]; exact j.ext, by rw [st.g]; exact j.uniq, st.hashes.trans j.hashes,
    by rw [st.log]; exact j.logPre, ?_, ?_, ?_, ?_, ?_, j.stable, ?_⟩
  · intro r hr; rw [newLog_same st.log] at hr; exact j.newRecs r hr
  · intro x hx; rw [hd]; exact j.discKeep x hx
  · intro x f hf; rw [hd] at hf; rw [st.g]; exact j.discIds x f hf
  · intro f hf
    rw [st.g]
    cases hbm : buildOf e.g b with
    | none =>
      have : (checkDirty e b).2 = e := by unfold checkDirty; rw [hbm]
      rw [this] at hf; exact j.keys f hf
    | some bm =>
      rcases checkDirty_keys e b bm hbm f hf with h | h
      · exact j.keys f h
      · have hbm0 : buildOf e0.g b = some bm := by rw [← j.ext.buildOf]; exact hbm
        have ids := ginv_idsOK e0.g inv0 b bm hbm0
        simp only [List.mem_append] at h
        rcases h with (h | h) | h
        · exact Nat.lt_of_lt_of_le (ids f (by simp [List.mem_of_mem_take h])) j.ext.length_le
        · exact j.discIds b f h
        · exact Nat.lt_of_lt_of_le (ids f (by simp [h])) j.ext.length_le
  · intro f m hm
    rw [mtimeOf_same st.toSameButCache, st.g]
    rcases st.fresh f m hm with h | h
    · exact j.cache f m h
    · exact Or.inl h
  · intro b' bm hb hbm hnp hall
    rw [st.log, manifestFs_same st.toSameButCache, hd, st.g]
    exact j.settled b' bm hb hbm hnp ((allPresentD_same st.toSameButCache bm b').mp hall)


theorem lastRec_snoc_other (g : GraphM) (b : Nat) (rs : List Rec) (r : Rec)
    (h : Db.attributeRec (producerByName g) r.outs ≠ some b) :
    lastRec g b (rs ++ [r]) none = lastRec g b rs none := by
  rw [lastRec_append]
  simp [lastRec, h]

theorem lastRec_snoc_own (g : GraphM) (b : Nat) (rs : List Rec) (r : Rec)
    (h : Db.attributeRec (producerByName g) r.outs = some b) :
    lastRec g b (rs ++ [r]) none = some r := by
  rw [lastRec_append]
  simp [lastRec, h]

/-- No new record belongs to a step that is not Done: its latest record is the loaded one. -/
theorem JD.lastRec_notDone {e0 : Env} {s : S} {e : Env} (j : JD e0 s e) (inv0 : GInv e0.g) (b : Nat)
    (hnd : s.st b ≠ .done) : lastRec e0.g b e.log none = lastRec e0.g b e0.log none := by
  obtain ⟨t, ht⟩ := j.logPre
  have hnl : newLog e0 e = t := by unfold newLog; rw [← ht]; simp
  rw [← ht, lastRec_append]
  apply lastRec_none_attributed
  intro r hr hatt
  obtain ⟨x, bmx, hx1, hx2, hx3⟩ := j.newRecs r (by rw [hnl]; exact hr)
  rw [hx3] at hatt
  have := attributed_unique e0.g inv0 b x bmx hx2 hatt
  subst this
  exact hnd hx1

/-- A clean answer stat()ed every remembered dependency (no assumption on the cache). -/
theorem checkDirty_clean_disc_cached (e : Env) (b : Nat) (bm : BuildM) (hb : buildOf e.g b = some bm)
    (hnp : bm.cmdline.isNone = false) (h : (checkDirty e b).1 = some false) :
    ∀ f ∈ discOf e b, Cached (checkDirty e b).2 f := by
  have hfm : (filesMissing e bm b).2 = some false ∧ (checkDirty e b).2 = (filesMissing e bm b).1 := by
    unfold checkDirty at h ⊢
    rw [hb] at h ⊢
    simp only [hnp, Bool.false_eq_true, if_false] at h ⊢
    cases hm : (filesMissing e bm b).2 with
    | none => rw [hm] at h; cases h
    | some m =>
      cases m with
      | true => rw [hm] at h; cases h
      | false =>
        refine ⟨rfl, ?_⟩
        simp only []
        split <;> rfl
  rw [hfm.2]
  have hfm := hfm.1
  revert hfm
  unfold filesMissing
  split
  · intro hx; cases hx
  · intro hx; split at hx <;> cases hx
  · rename_i e1 h1
    obtain ⟨s1, _, _⟩ := ensureInputs_stat _ _ _ _ h1
    split
    · intro hx; cases hx
    · intro hx; cases hx
    · rename_i e2 h2
      intro _ f hf
      have hd : discOf e1 b = discOf e b := by unfold discOf; rw [s1.toSameButCache.disc]
      rw [← hd] at hf
      obtain ⟨_, _, c2⟩ := ensureInputs_stat _ _ _ _ h2
      obtain ⟨_, b3, _⟩ := statAllOutputs_stat bm.outs e2
      exact b3 f (c2 rfl f hf)

/-- A step found clean joins the Done set. -/
theorem jd_check_clean (e0 : Env) (inv0 : GInv e0.g) (l0 : Loaded0 e0) {s s' : S} {e : Env} (b : Nat) (j : JD e0 s e)
    (hnd : s.st b ≠ .done) (hanc : ∀ p, Anc (schedGraph e0.g) b p → s.st p = .done)
    (hc : (checkDirty e b).1 = some false) (da : DoneAdd s s' b)
    (hgood : ∀ f ∈ discOf e b, fileInput e.g f = none) : JD e0 s' (checkDirty e b).2 := by
  have j1 := jd_check e0 inv0 b j
  have st := checkDirty_stat e b
  have hsub : ∀ x, s.st x = .done → s'.st x = .done := fun x hx => (da x).mpr (Or.inr hx)
  have hnew : s'.st b = .done := (da b).mpr (Or.inl rfl)
  have hother : ∀ x, x ≠ b → s.st x ≠ .done → s'.st x ≠ .done := by
    intro x hx hn h
    rcases (da x).mp h with h' | h'
    · exact hx h'
    · exact hn h'
  have hbo : ∀ bm, buildOf e0.g b = some bm → buildOf e.g b = some bm := by
    intro bm h; rw [j.ext.buildOf]; exact h
  -- outputs of `b` were stat()ed by this check
  have houts : ∀ bm, buildOf e0.g b = some bm → ∀ o ∈ bm.outs,
      assocGet (checkDirty e b).2.cache o = some (mtimeOf e o) := by
    intro bm hbm o ho
    have hbe := hbo bm hbm
    by_cases hp : bm.cmdline.isNone = true
    · exact checkDirty_phony_facts e b bm hbe hp o ho
    · have hp' : bm.cmdline.isNone = false := by cases h : bm.cmdline.isNone with | false => rfl | true => exact absurd h hp
      exact (checkDirty_clean_facts e b bm hbe hp' hc).2.1 o ho
  have hstable : ∀ b' bm, s'.st b' = .done → buildOf e0.g b' = some bm →
      ∀ f ∈ bm.dirtying, ∀ p, fileInput e0.g f = some p → s'.st p = .done := by
    intro b' bm hb hbm f hf p hp
    rcases (da b').mp hb with rfl | hb'
    · apply hsub
      apply hanc
      exact Anc.direct (f := f) (by rw [sg_ordering _ _ _ hbm]; exact dirtying_sub_ordering bm f hf)
        (by rw [sg_producer]; exact hp)
    · exact hsub p (j.stable b' bm hb' hbm f hf p hp)
  have hcache : ∀ f m, assocGet (checkDirty e b).2.cache f = some m →
      m = mtimeOf (checkDirty e b).2 f ∨ ∃ p, fileInput (checkDirty e b).2.g f = some p ∧ s'.st p ≠ .done := by
    intro f m hm
    rcases j1.cache f m hm with h | ⟨p, hp, hpn⟩
    · exact Or.inl h
    · by_cases hpb : p = b
      · subst hpb
        rw [st.g] at hp
        obtain ⟨hf0, hp0⟩ := j.input_old f p hp
        obtain ⟨bm, hbm, hfo⟩ := ginv_prod_build e0.g inv0 f p hp0
        left
        rw [houts bm hbm f hfo] at hm
        rw [mtimeOf_same st.toSameButCache]
        exact (Option.some.inj hm).symm
      · exact Or.inr ⟨p, hp, hother p hpb hpn⟩
  refine ⟨j1.ext, j1.uniq, j1.hashes, j1.logPre, ?_, ?_, j1.discIds, j1.keys, hcache, hstable, ?_⟩
  · intro r hr
    obtain ⟨x, bm, h1, h2, h3⟩ := j1.newRecs r hr
    exact ⟨x, bm, hsub x h1, h2, h3⟩
  · intro x hx
    exact j1.discKeep x (fun h => hx (hsub x h))
  · intro b' bm hb hbm hnp hall
    rcases (da b').mp hb with rfl | hb'
    · -- the step just found clean
      have hbe := hbo bm hbm
      obtain ⟨c1, c2, c3⟩ := checkDirty_clean_facts e b' bm hbe hnp hc
      have hd : discOf (checkDirty e b').2 b' = discOf e b' := by unfold discOf; rw [st.disc]
      have ids := ginv_idsOK e0.g inv0
      have hfresh : ∀ f ∈ bm.dirtying ++ discOf (checkDirty e b').2 b' ++ bm.outs,
          assocGet (checkDirty e b').2.cache f = some (mtimeOf (checkDirty e b').2 f) := by
        intro f hf
        simp only [List.mem_append] at hf
        rcases hf with (hf | hf) | hf
        · have hcached := c1 f (by simp [hf])
          unfold Cached at hcached
          cases hm : assocGet (checkDirty e b').2.cache f with
          | none => rw [hm] at hcached; cases hcached
          | some m =>
            rcases hcache f m hm with h | ⟨p, hp, hpn⟩
            · rw [h]
            · rw [st.g] at hp
              obtain ⟨_, hp0⟩ := j.input_old f p hp
              exact absurd (hstable b' bm hb hbm f hf p hp0) hpn
        · rw [hd] at hf
          have hcached := checkDirty_clean_disc_cached e b' bm hbe hnp hc f hf
          unfold Cached at hcached
          cases hm : assocGet (checkDirty e b').2.cache f with
          | none => rw [hm] at hcached; cases hcached
          | some m =>
            rcases hcache f m hm with h | ⟨p, hp, hpn⟩
            · rw [h]
            · rw [st.g, hgood f hf] at hp; cases hp
        · rw [c2 f hf, mtimeOf_same st.toSameButCache]
      have hman : manifestOf (checkDirty e b').2 bm b' = manifestFs (checkDirty e b').2 bm b' :=
        manifestOf_eq_fs' _ bm b' hfresh
      have hh : assocGet e0.hashes b' = some (manifestFs (checkDirty e b').2 bm b') := by
        rw [← hman, ← c3, st.hashes, j.hashes]
      -- the record start-up attached
      cases hl : lastRec e0.g b' e0.log none with
      | none => rw [(l0.norec b' hl).1] at hh; cases hh
      | some r0 =>
        obtain ⟨r1, r2, r3⟩ := l0.rem b' r0 hl
        refine ⟨r0, ?_, ?_, ?_⟩
        · rw [st.log, j.lastRec_notDone inv0 b' hnd]; exact hl
        · rw [r3] at hh; exact Option.some.inj hh
        · rw [hd, j.discKeep b' hnd, st.g, ← r1]
          apply List.map_congr_left
          intro f hf
          exact (j.ext.fileName_old f (r2 f hf)).symm
    · exact j1.settled b' bm hb' hbm hnp hall


theorem manifestFs_congrX (e e' : Env) (bm : BuildM) (b : Nat) (hd : discOf e' b = discOf e b)
    (hn : ∀ f ∈ bm.dirtying ++ discOf e b ++ bm.outs, fileName e'.g f = fileName e.g f)
    (hm : ∀ f ∈ bm.dirtying ++ discOf e b ++ bm.outs, mtimeOf e' f = mtimeOf e f) :
    manifestFs e' bm b = manifestFs e bm b := by
  unfold manifestFs
  rw [hd]
  simp only [Manifest.mk.injEq, true_and]
  refine ⟨?_, ?_, ?_⟩
  · apply List.map_congr_left; intro f hf; rw [hm f (by simp [hf]), hn f (by simp [hf])]
  · apply List.map_congr_left; intro f hf; rw [hm f (by simp [hf]), hn f (by simp [hf])]
  · apply List.map_congr_left; intro f hf; rw [hm f (by simp [hf]), hn f (by simp [hf])]

/-- The step `b` finishes (its command succeeded, or `-t restat` adopts it). -/
theorem jd_record (e0 : Env) (inv0 : GInv e0.g) (plain : PlainD e0.g) {s s' : S} {e e1 : Env} (b : Nat) (bm : BuildM)
    (hbm : buildOf e0.g b = some bm) (j : JD e0 s e) (hgoodS : GoodD s e)
    (hnd : s.st b ≠ .done) (hanc : ∀ p, Anc (schedGraph e0.g) b p → s.st p = .done) (da : DoneAdd s s' b)
    (h1g : e1.g = e.g) (h1l : e1.log = e.log) (h1h : e1.hashes = e.hashes) (h1d : e1.disc = e.disc)
    (h1c : e1.cache = e.cache)
    (h1m : ∀ f, f < e.g.files.length → f ∉ bm.outs → mtimeOf e1 f = mtimeOf e f)
    (deps : Option (List Bytes))
    (hgood : ∀ f ∈ discOf (recordFinished e1 b deps) b, fileInput (recordFinished e1 b deps).g f = none) :
    JD e0 s' (recordFinished e1 b deps) := by
  have hb1 : buildOf e1.g b = some bm := by rw [h1g, j.ext.buildOf]; exact hbm
  obtain ⟨r1, r2, r3, r4, r5, r6, r7, r8, r9, r10⟩ := recordFinished_gen e1 b bm hb1 deps
  have hkeys := recordFinished_keys e1 b bm hb1 deps
  have huniq := recordFinished_unique e1 b deps (by rw [h1g]; exact j.uniq)
  generalize hR : recordFinished e1 b deps = R at r1 r2 r3 r4 r5 r6 r7 r8 r9 r10 hkeys huniq hgood
  have hx : Ext e.g R.g := by rw [← h1g]; exact r1
  have hx0 : Ext e0.g R.g := j.ext.trans hx
  have ids := ginv_idsOK e0.g inv0
  have hsub : ∀ x, s.st x = .done → s'.st x = .done := fun x hx => (da x).mpr (Or.inr hx)
  have hother : ∀ x, x ≠ b → s.st x ≠ .done → s'.st x ≠ .done := by
    intro x hx hn h
    rcases (da x).mp h with h' | h'
    · exact hx h'
    · exact hn h'
  have hbdone : s'.st b = .done := (da b).mpr (Or.inl rfl)
  -- modification times seen through the grown graph
  have hmR : ∀ f, f < e.g.files.length → mtimeOf R f = mtimeOf e1 f := by
    intro f hf; exact mtimeOf_ext r1 r2 f (by rw [h1g]; exact hf)
  have hdx : ∀ x, x ≠ b → discOf R x = discOf e x := by
    intro x hx; rw [r5 x hx]; unfold discOf; rw [h1d]
  have hidsb : ∀ f ∈ bm.dirtying ++ bm.outs, f < e0.g.files.length := by
    intro f hf
    apply ids b bm hbm f
    rcases List.mem_append.mp hf with h | h
    · exact List.mem_append.mpr (Or.inl (List.mem_of_mem_take h))
    · exact List.mem_append.mpr (Or.inr h)
  have hnames_out : bm.outs.map (fileName R.g) = bm.outs.map (fileName e0.g) := by
    apply List.map_congr_left
    intro o ho
    exact hx0.fileName_old o (hidsb o (by simp [ho]))
  have hstable : ∀ b' bm', s'.st b' = .done → buildOf e0.g b' = some bm' →
      ∀ f ∈ bm'.dirtying, ∀ p, fileInput e0.g f = some p → s'.st p = .done := by
    intro b' bm' hb hbm' f hf p hp
    rcases (da b').mp hb with rfl | hb'
    · apply hsub
      apply hanc
      exact Anc.direct (f := f) (by rw [sg_ordering _ _ _ hbm']; exact dirtying_sub_ordering bm' f hf)
        (by rw [sg_producer]; exact hp)
    · exact hsub p (j.stable b' bm' hb' hbm' f hf p hp)
  -- an output of `b`, seen in `e`
  have hout_input : ∀ o ∈ bm.outs, fileInput e.g o = some b := by
    intro o ho
    obtain ⟨fm, hfm, hin⟩ := inv0.outs b bm hbm o ho
    rw [j.ext.fileInput_old o (hidsb o (by simp [ho]))]
    unfold fileInput; rw [hfm]; exact hin
  -- files of an older Done step are valid and are not outputs of `b`
  have hfiles_old : ∀ b' bm', b' ≠ b → s.st b' = .done → buildOf e0.g b' = some bm' →
      ∀ f ∈ bm'.dirtying ++ discOf e b' ++ bm'.outs, f < e.g.files.length ∧ f ∉ bm.outs := by
    intro b' bm' hne hb' hbm' f hf
    simp only [List.mem_append] at hf
    rcases hf with (h | h) | h
    · have hv : f < e0.g.files.length := ids b' bm' hbm' f (by simp [List.mem_of_mem_take h])
      refine ⟨Nat.lt_of_lt_of_le hv j.ext.length_le, ?_⟩
      intro hfo
      have hfi := hout_input f hfo
      rw [j.ext.fileInput_old f hv] at hfi
      exact hnd (j.stable b' bm' hb' hbm' f h b hfi)
    · refine ⟨j.discIds b' f h, ?_⟩
      intro hfo
      have := hgoodS b' hb' f h
      rw [hout_input f hfo] at this; cases this
    · have hv : f < e0.g.files.length := ids b' bm' hbm' f (by simp [h])
      refine ⟨Nat.lt_of_lt_of_le hv j.ext.length_le, ?_⟩
      intro hfo
      obtain ⟨fm, hfm, hin⟩ := inv0.outs b bm hbm f hfo
      obtain ⟨fm', hfm', hin'⟩ := inv0.outs b' bm' hbm' f h
      rw [hfm] at hfm'; cases hfm'
      rw [hin] at hin'; exact hne (Option.some.inj hin').symm
  have hlogPre : e0.log <+: R.log := by
    rcases r9 with h | h
    · rw [h, h1l]; exact j.logPre
    · rw [h, h1l]; exact j.logPre.trans (List.prefix_append _ _)
  have hattr : Db.attributeRec (producerByName e0.g) (bm.outs.map (fileName R.g)) = some b := by
    rw [hnames_out]; exact attributed_own e0.g inv0 b bm hbm (plain.outsNe b bm hbm)
  refine ⟨hx0, huniq, r3.trans (h1h.trans j.hashes), hlogPre, ?_, ?_, ?_, ?_, ?_, hstable, ?_⟩
  · -- newRecs
    intro r hr
    rcases r9 with h | h
    · have : newLog e0 R = newLog e0 e := by unfold newLog; rw [h, h1l]
      rw [this] at hr
      obtain ⟨x, bmx, a1, a2, a3⟩ := j.newRecs r hr
      exact ⟨x, bmx, hsub x a1, a2, a3⟩
    · have : newLog e0 R = newLog e0 e ++ [⟨bm.outs.map (fileName R.g), (discOf R b).map (fileName R.g), manifestOf R bm b⟩] := by
        unfold newLog; rw [h, h1l]; exact newLog_snoc e0 e.log _ j.logPre
      rw [this] at hr
      rcases List.mem_append.mp hr with hr | hr
      · obtain ⟨x, bmx, a1, a2, a3⟩ := j.newRecs r hr
        exact ⟨x, bmx, hsub x a1, a2, a3⟩
      · simp only [List.mem_singleton] at hr
        subst hr
        exact ⟨b, bm, hbdone, hbm, hnames_out⟩
  · -- discKeep
    intro x hxd
    have hxb : x ≠ b := fun h => hxd (h ▸ hbdone)
    rw [hdx x hxb]
    exact j.discKeep x (fun h => hxd (hsub x h))
  · -- discIds
    intro x f hf
    by_cases hxb : x = b
    · subst hxb; exact (r6 f hf).1
    · rw [hdx x hxb] at hf
      exact Nat.lt_of_lt_of_le (j.discIds x f hf) hx.length_le
  · -- keys
    intro f hf
    rcases hkeys f hf with h | h
    · have : Cached e f := by unfold Cached at h ⊢; rw [← h1c]; exact h
      exact Nat.lt_of_lt_of_le (j.keys f this) hx.length_le
    · simp only [List.mem_append] at h
      rcases h with (h | h) | h
      · exact Nat.lt_of_lt_of_le (hidsb f (by simp [h])) hx0.length_le
      · exact (r6 f h).1
      · exact Nat.lt_of_lt_of_le (hidsb f (by simp [h])) hx0.length_le
  · -- cache
    intro f m hm
    by_cases hfb : f ∈ bm.dirtying ++ discOf R b ++ bm.outs
    · left
      rw [r8 f hfb] at hm
      exact (Option.some.inj hm).symm
    · have hfo : f ∉ bm.outs := fun h => hfb (by simp [h])
      rcases r7 f m hm with h | h
      · rw [h1c] at h
        have hv : f < e.g.files.length := j.keys f (by unfold Cached; rw [h]; rfl)
        rcases j.cache f m h with h' | ⟨p, hp, hpn⟩
        · left; rw [h', hmR f hv, h1m f hv hfo]
        · right
          refine ⟨p, by rw [hx.fileInput_old f hv]; exact hp, hother p ?_ hpn⟩
          intro hpb
          subst hpb
          obtain ⟨hf0, hp0⟩ := j.input_old f p hp
          obtain ⟨bm2, hbm2, hfo2⟩ := ginv_prod_build e0.g inv0 f p hp0
          rw [hbm] at hbm2; cases hbm2
          exact hfo hfo2
      · exact Or.inl h
  · -- settled
    intro b' bm' hb hbm' hnp hall
    rcases (da b').mp hb with rfl | hb'
    · rw [hbm] at hbm'; cases hbm'
      have hlog := r10 hall
      refine ⟨⟨bm.outs.map (fileName R.g), (discOf R b').map (fileName R.g), manifestOf R bm b'⟩, ?_, ?_, rfl⟩
      · rw [hlog, h1l]
        exact lastRec_snoc_own e0.g b' e.log _ hattr
      · exact manifestOf_eq_fs' R bm b' r8
    · have hne : b' ≠ b := fun h => hnd (h ▸ hb')
      have hfo := hfiles_old b' bm' hne hb' hbm'
      have hdd : discOf R b' = discOf e b' := hdx b' hne
      have hmt : ∀ f ∈ bm'.dirtying ++ discOf e b' ++ bm'.outs, mtimeOf R f = mtimeOf e f := by
        intro f hf
        rw [hmR f (hfo f hf).1, h1m f (hfo f hf).1 (hfo f hf).2]
      have hnm : ∀ f ∈ bm'.dirtying ++ discOf e b' ++ bm'.outs, fileName R.g f = fileName e.g f := by
        intro f hf; exact hx.fileName_old f (hfo f hf).1
      have hall0 : AllPresentD e bm' b' := by
        intro f hf
        rw [← hmt f hf]
        exact hall f (by rw [hdd]; exact hf)
      obtain ⟨r0, q1, q2, q3⟩ := j.settled b' bm' hb' hbm' hnp hall0
      refine ⟨r0, ?_, ?_, ?_⟩
      · rcases r9 with h | h
        · rw [h, h1l]; exact q1
        · rw [h, h1l, lastRec_snoc_other e0.g b' e.log _ (by
            rw [hattr]; intro hh; exact hne (Option.some.inj hh).symm)]
          exact q1
      · rw [q2]; exact (manifestFs_congrX e R bm' b' hdd hnm hmt).symm
      · rw [q3, hdd]
        apply List.map_congr_left
        intro f hf
        exact (hnm f (by simp [hf])).symm


theorem jd_add_nobuild (e0 : Env) (inv0 : GInv e0.g) {s s' : S} {e : Env} (b : Nat) (hnone : buildOf e0.g b = none)
    (j : JD e0 s e) (da : DoneAdd s s' b) : JD e0 s' e := by
  have hsub : ∀ x, s.st x = .done → s'.st x = .done := fun x hx => (da x).mpr (Or.inr hx)
  refine ⟨j.ext, j.uniq, j.hashes, j.logPre, ?_, ?_, j.discIds, j.keys, ?_, ?_, ?_⟩
  · intro r hr
    obtain ⟨x, bmx, h1, h2, h3⟩ := j.newRecs r hr
    exact ⟨x, bmx, hsub x h1, h2, h3⟩
  · intro x hx; exact j.discKeep x (fun h => hx (hsub x h))
  · intro f m hm
    rcases j.cache f m hm with h | ⟨p, hp, hpn⟩
    · exact Or.inl h
    · refine Or.inr ⟨p, hp, ?_⟩
      intro hd
      rcases (da p).mp hd with rfl | h
      · obtain ⟨_, hp0⟩ := j.input_old f p hp
        obtain ⟨bm, hbm, _⟩ := ginv_prod_build e0.g inv0 f p hp0
        rw [hnone] at hbm; cases hbm
      · exact hpn h
  · intro b' bm hb hbm f hf p hp
    rcases (da b').mp hb with rfl | hb'
    · rw [hnone] at hbm; cases hbm
    · exact hsub p (j.stable b' bm hb' hbm f hf p hp)
  · intro b' bm hb hbm hnp hall
    rcases (da b').mp hb with rfl | hb'
    · rw [hnone] at hbm; cases hbm
    · exact j.settled b' bm hb' hbm hnp hall

/-- `GoodD` of the earlier state follows from `GoodD` of the later one when only `b` (not Done
    before) changed its list and the graph only grew. -/
theorem goodD_back {s s' : S} {e e' : Env} (b : Nat) (da : DoneAdd s s' b) (hnd : s.st b ≠ .done)
    (hx : Ext e.g e'.g) (hd : ∀ x, x ≠ b → discOf e' x = discOf e x) (h : GoodD s' e') : GoodD s e := by
  intro x hxd f hf
  have hxb : x ≠ b := fun hh => hnd (hh ▸ hxd)
  have := h x ((da x).mpr (Or.inr hxd)) f (by rw [hd x hxb]; exact hf)
  by_cases hv : f < e.g.files.length
  · rw [← hx.fileInput_old f hv]; exact this
  · unfold fileInput
    rw [List.getElem?_eq_none (by omega)]
    rfl

/-- The environment operations of an invocation meet the specification for `JG`. -/
theorem jd_spec (e0 : Env) (inv0 : GInv e0.g) (l0 : Loaded0 e0) (plain : PlainD e0.g) (adopt : Bool) (perms : List (List Nat))
    (fin : List (Nat × Term)) : DoneSpec (schedGraph e0.g) (choices adopt perms fin) (JG e0) where
  ext := fun s s' e d j => j.ext' d
  clean := by
    intro s s' e b j hnd hanc hc da hg
    show JD e0 s' (checkDirty e b).2
    have hg : GoodD s' (checkDirty e b).2 := hg
    have hc : (checkDirty e b).1 = some false := hc
    have st := checkDirty_stat e b
    have hd : ∀ x, discOf (checkDirty e b).2 x = discOf e x := by intro x; unfold discOf; rw [st.disc]
    have hg0 : GoodD s e := goodD_back b da hnd (by rw [st.g]; exact Ext.refl _) (fun x _ => hd x) hg
    have hgb : ∀ f ∈ discOf e b, fileInput e.g f = none := by
      intro f hf
      have := hg b ((da b).mpr (Or.inl rfl)) f (by rw [hd]; exact hf)
      rw [st.g] at this; exact this
    exact jd_check_clean e0 inv0 l0 b (j hg0) hnd hanc hc da hgb
  dirty := by
    intro s e b j _ _ _ hg
    show JD e0 s (checkDirty e b).2
    have hg : GoodD s (checkDirty e b).2 := hg
    have st := checkDirty_stat e b
    have hg0 : GoodD s e := by
      intro x hx f hf
      have := hg x hx f (by unfold discOf; rw [st.disc]; exact hf)
      rw [st.g] at this; exact this
    exact jd_check e0 inv0 b (j hg0)
  adopt := by
    intro s s' e b j hnd hanc da hg
    show JD e0 s' (recordFinished e b none)
    have hg : GoodD s' (recordFinished e b none) := hg
    cases hbm : buildOf e0.g b with
    | none =>
      -- nothing is recorded for an id that is not a step
      have hbe : ∀ g', Ext e0.g g' → Work.buildOf g' b = none := fun g' hx => by rw [hx.buildOf]; exact hbm
      by_cases hgs : GoodD s e
      · have jd := j hgs
        have : recordFinished e b none = e := by
          unfold recordFinished; rw [hbe e.g jd.ext]
        rw [this]
        exact jd_add_nobuild e0 inv0 b hbm jd da
      · -- the premise transfers back unchanged in this case too
        exfalso
        apply hgs
        intro x hxd f hf
        -- `recordFinished` is the identity when `b` is no step of the CURRENT graph
        cases hcur : Work.buildOf e.g b with
        | none =>
          have : recordFinished e b none = e := by unfold recordFinished; rw [hcur]
          rw [this] at hg
          exact hg x ((da x).mpr (Or.inr hxd)) f hf
        | some bm =>
          obtain ⟨r1, _, _, _, r5, _⟩ := recordFinished_gen e b bm hcur none
          exact goodD_back b da hnd r1 r5 hg x hxd f hf
    | some bm =>
      cases hcur : Work.buildOf e.g b with
      | none =>
        have : recordFinished e b none = e := by unfold recordFinished; rw [hcur]
        have hg0 : GoodD s e := by
          rw [this] at hg
          intro x hxd f hf; exact hg x ((da x).mpr (Or.inr hxd)) f hf
        have jd := j hg0
        rw [jd.ext.buildOf, hbm] at hcur; cases hcur
      | some bm' =>
        obtain ⟨r1, _, _, _, r5, _⟩ := recordFinished_gen e b bm' hcur none
        have hg0 : GoodD s e := goodD_back b da hnd r1 r5 hg
        have jd := j hg0
        exact jd_record e0 inv0 plain b bm hbm jd hg0 hnd hanc da rfl rfl rfl rfl rfl (fun _ _ _ => rfl) none
          (fun f hf => hg b ((da b).mpr (Or.inl rfl)) f hf)
  success := by
    intro s s' e b j hnd hanc da hg
    show JD e0 s' (onSuccess e b)
    have hg : GoodD s' (onSuccess e b) := hg
    cases hcur : Work.buildOf e.g b with
    | none =>
      have hid : onSuccess e b = e := by unfold onSuccess; rw [hcur]
      rw [hid] at hg ⊢
      have hg0 : GoodD s e := fun x hxd f hf => hg x ((da x).mpr (Or.inr hxd)) f hf
      have jd := j hg0
      have hbm : Work.buildOf e0.g b = none := by rw [← jd.ext.buildOf]; exact hcur
      exact jd_add_nobuild e0 inv0 b hbm jd da
    | some bm =>
      have hso : onSuccess e b = recordFinished (runCommand e b) b
          (if readsDeps bm then some (reportedDeps e bm) else none) := by
        unfold onSuccess; rw [hcur]
      rw [hso] at hg ⊢
      obtain ⟨c1, c2, c3, _, c5⟩ := runCommand_frame e b
      have hdisc : (runCommand e b).disc = e.disc := by unfold runCommand; rw [hcur]; simp only []; split <;> rfl
      have hcache : (runCommand e b).cache = e.cache := by unfold runCommand; rw [hcur]; simp only []; split <;> rfl
      have hcur1 : Work.buildOf (runCommand e b).g b = some bm := by rw [c3]; exact hcur
      obtain ⟨r1, _, _, _, r5, _⟩ := recordFinished_gen (runCommand e b) b bm hcur1
        (if readsDeps bm then some (reportedDeps e bm) else none)
      have hg0 : GoodD s e := by
        apply goodD_back b da hnd (by rw [← c3]; exact r1) _ hg
        intro x hx; rw [r5 x hx]; unfold discOf; rw [hdisc]
      have jd := j hg0
      have hbm : Work.buildOf e0.g b = some bm := by rw [← jd.ext.buildOf]; exact hcur
      refine jd_record e0 inv0 plain b bm hbm jd hg0 hnd hanc da c3 c1 c2 hdisc hcache ?_ _
        (fun f hf => hg b ((da b).mpr (Or.inl rfl)) f hf)
      intro f hf hfo
      unfold mtimeOf
      rw [c3, c5]
      intro bm' hb'
      rw [hcur] at hb'; cases hb'
      constructor
      · intro o ho hname
        -- unique names in the current graph: same name, same file
        have hov : o < e.g.files.length :=
          Nat.lt_of_lt_of_le (ginv_idsOK e0.g inv0 b bm hbm o (by simp [ho])) jd.ext.length_le
        have hfo' : e.g.files[o]? = some e.g.files[o] := List.getElem?_eq_getElem hov
        have hff' : e.g.files[f]? = some e.g.files[f] := List.getElem?_eq_getElem hf
        have : o = f := jd.uniq o f _ _ hfo' hff' (by
          unfold fileName at hname; rw [hfo', hff'] at hname; simpa using hname)
        exact hfo (this ▸ ho)
      · intro hrw
        rw [plain.noRw b bm hbm] at hrw; cases hrw

end N2V.Work
