/-
  `runLoop_done` for every ordinary end of `Work::run` - success AND failure (a command failed,
  the budget ran out, an interruption): the joint invariant holds of the state it returns.
-/
import N2V.Lemmas.SchedDone
namespace N2V.Sched

theorem runLoop_done_ok {E : Type} {g : Graph} {par : Nat} (c : Choices E) (J : S → E → Prop)
    (spec : DoneSpec g c J) (fuel : Nat) : ∀ (s : S) (e : E) (perms : List (List Nat)) (fin : List (Nat × Term)),
    Inv g par s → J s e → ∀ ok : Bool, (runLoop g par c fuel s e perms fin).result = .ok ok →
    J (runLoop g par c fuel s e perms fin).s (runLoop g par c fuel s e perms fin).e := by
  induction fuel with
  | zero => intro s e perms fin _ _ ok h; simp [runLoop] at h
  | succ fuel ih =>
    intro s e perms fin inv j ok h
    unfold runLoop at h ⊢
    by_cases hp : s.pending ≤ 0
    · simp only [hp, if_true]; exact j
    · simp only [hp, if_false] at h ⊢
      have inv0 : Inv g par { s with trace := Ev.update (countsList s.counts) :: s.trace } :=
        Inv.of_sameCore (s := s) ⟨rfl, rfl, rfl, rfl, rfl, rfl⟩ inv
      have j0 : J { s with trace := Ev.update (countsList s.counts) :: s.trace } e :=
        spec.ext s _ e (fun _ => Iff.rfl) j
      cases h1 : startLoop g par (g.nBuilds + 1) { s with trace := Ev.update (countsList s.counts) :: s.trace } false with
      | inr r =>
        obtain ⟨se, rr⟩ := r
        simp only [h1] at h
        exact absurd h1 (by rw [h]; exact startLoop_not_ok _ _ _ _ _ _ _)
      | inl r =>
        obtain ⟨s1, p1⟩ := r
        simp only [h1] at h ⊢
        have i1 := startLoop_inl_inv _ _ _ inv0 _ _ h1
        have j1 : J s1 e := spec.ext _ s1 e (startLoop_doneEq _ _ _ inv0 _ _ h1) j0
        cases h2 : readyLoop g c (g.nBuilds + 1) s1 e perms false with
        | inr r =>
          obtain ⟨se, e2, rr⟩ := r
          simp only [h2] at h
          exact absurd h2 (by rw [h]; exact readyLoop_not_ok _ _ _ _ _ _ _ _ _ _)
        | inl r =>
          obtain ⟨s2, e2, perms2, p2⟩ := r
          simp only [h2] at h ⊢
          have i2 := readyLoop_inl_inv c _ _ _ _ _ i1 _ _ _ _ h2
          have j2 : J s2 e2 := readyLoop_done c J spec _ s1 e perms false i1 j1 _ _ _ _ h2
          by_cases hpp : (p1 || p2) = true
          · simp only [hpp, if_true] at h ⊢; exact ih _ _ _ _ i2 j2 ok h
          · simp only [hpp, Bool.false_eq_true, if_false] at h ⊢
            by_cases hrun : s2.running ≤ 0
            · simp only [hrun, if_true] at h ⊢; split <;> first | exact j2 | (rename_i hx; simp [hx] at h)
            · simp only [hrun, if_false] at h ⊢
              cases fin with
              | nil => simp at h
              | cons ft fin' =>
                obtain ⟨id, t⟩ := ft
                simp only at h ⊢
                by_cases hst : s2.st id ≠ .running
                · rw [if_pos hst] at h; simp at h
                · rw [if_neg hst] at h ⊢
                  have hst' : s2.st id = .running := by simpa using hst
                  have hnd : s2.st id ≠ .done := by rw [hst']; simp
                  have hanc : ∀ p, Anc g id p → s2.st p = .done :=
                    fun p ha => i2.anc_done ha (Or.inr (Or.inr (Or.inl hst')))
                  cases t with
                  | interrupted => exact spec.ext s2 _ e2 (fun _ => Iff.rfl) j2
                  | failure =>
                    simp only at h ⊢
                    cases hfl : s2.failuresLeft with
                    | none =>
                      simp only [hfl] at h ⊢
                      generalize h4 : resToRun _ _ = r4 at h ⊢
                      cases r4 with
                      | inl s4 =>
                        simp only at h ⊢
                        have hs4 := resToRun_inl h4
                        have de : DoneEq s2 s4 := fun b => (set_doneEq hs4 (by decide) (by show s2.st id ≠ .done; exact hnd)) b
                        refine ih _ _ _ _ (failed_inv _ i2 hst' ?_ ?_ hs4) (spec.ext s2 s4 e2 de j2) ok h
                        · exact ⟨rfl, rfl, rfl, rfl, rfl⟩
                        · rfl
                      | inr r =>
                        obtain ⟨se, rr⟩ := r
                        simp only at h
                        exact absurd h4 (by rw [h]; exact resToRun_not_ok _ _ _ _)
                    | some n =>
                      simp only [hfl] at h ⊢
                      by_cases hn0 : n = 0
                      · rw [if_pos hn0] at h; simp at h
                      · rw [if_neg hn0] at h ⊢
                        by_cases hn1 : n - 1 = 0
                        · rw [if_pos hn1] at h ⊢
                          exact spec.ext s2 _ e2 (fun _ => Iff.rfl) j2
                        · rw [if_neg hn1] at h ⊢
                          generalize h4 : resToRun _ _ = r4 at h ⊢
                          cases r4 with
                          | inl s4 =>
                            simp only at h ⊢
                            have hs4 := resToRun_inl h4
                            have de : DoneEq s2 s4 := fun b => (set_doneEq hs4 (by decide) (by show s2.st id ≠ .done; exact hnd)) b
                            refine ih _ _ _ _ (failed_inv _ i2 hst' ?_ ?_ hs4) (spec.ext s2 s4 e2 de j2) ok h
                            · exact ⟨rfl, rfl, rfl, rfl, rfl⟩
                            · rfl
                          | inr r =>
                            obtain ⟨se, rr⟩ := r
                            simp only at h
                            exact absurd h4 (by rw [h]; exact resToRun_not_ok _ _ _ _)
                  | success =>
                    simp only at h ⊢
                    generalize h4 : resToRun _ _ = r4 at h ⊢
                    cases r4 with
                    | inl s4 =>
                      simp only at h ⊢
                      have hs4 := resToRun_inl h4
                      have da : DoneAdd s2 s4 id := fun b => (readyDependents_doneAdd hs4) b
                      refine ih _ _ _ _ (succeeded_inv _ i2 hst' ?_ ?_ hs4) (spec.success s2 s4 e2 id j2 hnd hanc da) ok h
                      · exact ⟨rfl, rfl, rfl, rfl, rfl⟩
                      · rfl
                    | inr r =>
                      obtain ⟨se, rr⟩ := r
                      simp only at h
                      exact absurd h4 (by rw [h]; exact resToRun_not_ok _ _ _ _)


end N2V.Sched

namespace N2V.Run
open N2V N2V.Sched

/-- The joint invariant at the end of `run::build` when it reports success OR an ordinary failure
    (a command failed / the `-k` budget ran out / an interruption), without a reload. -/
theorem build_done_or_failed {E : Type} {g : Graph} (gok : GraphOK g) (a : Args) (c : Choices E) (J : S → E → Prop)
    (spec : DoneSpec g c J) (e : E) (hj : J (fresh a) e)
    (h : (∃ n, (build g a c e).2.2 = .done n) ∨ (build g a c e).2.2 = .failed) : J (build g a c e).1 (build g a c e).2.1 := by
  revert h
  unfold build
  simp only []
  have hrel := want_rel gok (fresh a) a.manifest (fresh_inv g a)
  cases hwm : want g (fresh a) a.manifest with
  | ok u s1 =>
    rw [hwm] at hrel
    simp only []
    have j1 : J s1 e := spec.ext _ s1 e (WRel.doneEq hrel) hj
    cases hres : (runLoop g a.par c (runFuel g) s1 e c.perms c.finishes).result with
    | ok bb =>
      cases bb with
      | true =>
        simp only []
        have i2 := runLoop_inv c (runFuel g) s1 e c.perms c.finishes hrel.inv hres
        have j2 := runLoop_done c J spec (runFuel g) s1 e c.perms c.finishes hrel.inv j1 hres
        split
        · intro h; rcases h with ⟨n, h⟩ | h <;> cases h
        · -- phase 2
          unfold phase2
          simp only []
          have hw : WRRel g a.par (runLoop g a.par c (runFuel g) s1 e c.perms c.finishes).s
              (if !a.targets.isEmpty then wantTargets g a (runLoop g a.par c (runFuel g) s1 e c.perms c.finishes).s a.targets
               else if !a.defaults.isEmpty then wantAll g (runLoop g a.par c (runFuel g) s1 e c.perms c.finishes).s a.defaults
               else wantAll g (runLoop g a.par c (runFuel g) s1 e c.perms c.finishes).s ((List.range g.nFiles).filter (· ≠ a.manifest))) := by
            split
            · exact wantTargets_rel a gok _ _ _ (WRel.refl i2)
            · split
              · exact wantAll_rel gok _ _ _ (WRel.refl i2)
              · exact wantAll_rel gok _ _ _ (WRel.refl i2)
          generalize (if !a.targets.isEmpty then wantTargets g a (runLoop g a.par c (runFuel g) s1 e c.perms c.finishes).s a.targets
               else if !a.defaults.isEmpty then wantAll g (runLoop g a.par c (runFuel g) s1 e c.perms c.finishes).s a.defaults
               else wantAll g (runLoop g a.par c (runFuel g) s1 e c.perms c.finishes).s ((List.range g.nFiles).filter (· ≠ a.manifest))) = w at hw ⊢
          cases w with
          | ok u3 s3 =>
            simp only []
            have j3 : J s3 (runLoop g a.par c (runFuel g) s1 e c.perms c.finishes).e :=
              spec.ext _ s3 _ (WRel.doneEq hw) j2
            cases hres2 : (runLoop g a.par c (runFuel g) s3 (runLoop g a.par c (runFuel g) s1 e c.perms c.finishes).e
                (runLoop g a.par c (runFuel g) s1 e c.perms c.finishes).perms
                (runLoop g a.par c (runFuel g) s1 e c.perms c.finishes).finishes).result with
            | ok bb2 =>
              cases bb2 with
              | true =>
                simp only []
                intro _
                exact runLoop_done c J spec (runFuel g) s3 _ _ _ hw.inv j3 hres2
              | false =>
                simp only [ofRun]; intro _
                exact runLoop_done_ok c J spec (runFuel g) s3 _ _ _ hw.inv j3 false hres2
            | _ => simp only [ofRun]; intro h; rcases h with ⟨n, h⟩ | h <;> cases h
          | err m s3 => simp only []; intro h; rcases h with ⟨n, h⟩ | h <;> cases h
          | bad m => simp only []; intro h; rcases h with ⟨n, h⟩ | h <;> cases h
      | false =>
        simp only [ofRun]; intro _
        exact runLoop_done_ok c J spec (runFuel g) s1 e c.perms c.finishes hrel.inv j1 false hres
    | _ => simp only [ofRun]; intro h; rcases h with ⟨n, h⟩ | h <;> cases h
  | err m s1 => simp only []; intro h; rcases h with ⟨n, h⟩ | h <;> cases h
  | bad m => simp only []; intro h; rcases h with ⟨n, h⟩ | h <;> cases h


/-- The same for the part of `run::build` that follows a reload (a fresh `Work` on the reloaded
    graph). -/
theorem buildReloaded_done_or_failed {E : Type} {g : Graph} (gok : GraphOK g) (a : Args) (c : Choices E) (J : S → E → Prop)
    (spec : DoneSpec g c J) (e : E) (hj : J (fresh a) e) (n0 : Nat)
    (h : (∃ n, (buildReloaded g a c e n0).2.2 = .done n) ∨ (buildReloaded g a c e n0).2.2 = .failed) :
    J (buildReloaded g a c e n0).1 (buildReloaded g a c e n0).2.1 := by
  revert h
  unfold buildReloaded phase2
  simp only []
  have i2 := fresh_inv g a
  have hw : WRRel g a.par (fresh a)
      (if !a.targets.isEmpty then wantTargets g a (fresh a) a.targets
       else if !a.defaults.isEmpty then wantAll g (fresh a) a.defaults
       else wantAll g (fresh a) ((List.range g.nFiles).filter (· ≠ a.manifest))) := by
    split
    · exact wantTargets_rel a gok _ _ _ (WRel.refl i2)
    · split
      · exact wantAll_rel gok _ _ _ (WRel.refl i2)
      · exact wantAll_rel gok _ _ _ (WRel.refl i2)
  generalize (if !a.targets.isEmpty then wantTargets g a (fresh a) a.targets
       else if !a.defaults.isEmpty then wantAll g (fresh a) a.defaults
       else wantAll g (fresh a) ((List.range g.nFiles).filter (· ≠ a.manifest))) = w at hw ⊢
  cases w with
  | ok u3 s3 =>
    simp only []
    have j3 : J s3 e := spec.ext _ s3 _ (WRel.doneEq hw) hj
    cases hres2 : (runLoop g a.par c (runFuel g) s3 e c.perms c.finishes).result with
    | ok bb2 =>
      cases bb2 with
      | true =>
        simp only []
        intro _
        exact runLoop_done c J spec (runFuel g) s3 _ _ _ hw.inv j3 hres2
      | false =>
        simp only [ofRun]; intro _
        exact runLoop_done_ok c J spec (runFuel g) s3 _ _ _ hw.inv j3 false hres2
    | _ => simp only [ofRun]; intro h; rcases h with ⟨n, h⟩ | h <;> cases h
  | err m s3 => simp only []; intro h; rcases h with ⟨n, h⟩ | h <;> cases h
  | bad m => simp only []; intro h; rcases h with ⟨n, h⟩ | h <;> cases h


end N2V.Run
