/-
  A run in which every dirtiness check answers "clean" starts nothing: no command is started or
  awaited, no completion is consumed, `tasks_run` stays put, and the environment only changes
  through the checks.  (The scheduler half of "a repeated build does nothing".)
-/
import N2V.Lemmas.SchedAcct
import N2V.Lemmas.SchedStep
import N2V.Lemmas.SchedClosure
import N2V.Lemmas.TraceFacts
namespace N2V.Sched

/-- Nothing queued, nothing running. -/
structure Quiet (s : S) : Prop where
  run0 : s.running = 0
  stq : ∀ b, s.st b ≠ .queued ∧ s.st b ≠ .running
  pq : popQueued s.pools = none

theorem set_quiet {g : Graph} {s s' : S} {id : Nat} {new : St} (q : Quiet s) (hn : new ≠ .running)
    (hq : new ≠ .queued) (h : set g s id new = .ok s') : Quiet s' := by
  obtain ⟨ps1, ps2, h1, h2, hst, -, -, -, hp, hr, -, -, -⟩ := set_spec h
  rw [if_neg (q.stq id).2] at h1
  rw [if_neg hn] at h2
  have e1 : ps1 = s.pools := (Option.some.inj h1).symm
  have e2 : ps2 = ps1 := (Option.some.inj h2).symm
  refine ⟨by rw [hr]; exact q.run0, ?_, by rw [hp, e2, e1]; exact q.pq⟩
  intro b
  rw [hst]
  unfold upd
  by_cases hb : b = id
  · simp [hb, hn, hq]
  · simp [hb]; exact q.stq b

theorem promote_quiet {g : Graph} (l : List Nat) (s s' : S) (q : Quiet s) (h : promote g s l = .ok s') :
    Quiet s' := by
  induction l generalizing s with
  | nil => simp [promote] at h; rw [← h]; exact q
  | cons d ds ih =>
    unfold promote at h
    split at h
    · rename_i s1 hs; exact ih s1 (set_quiet q (by decide) (by decide) hs) h
    · rename_i hne; exact absurd h (hne s')

theorem readyDependents_quiet {g : Graph} {s s' : S} {id : Nat} {perm : List Nat} (q : Quiet s)
    (h : readyDependents g s id perm = .ok s') : Quiet s' := by
  unfold readyDependents at h
  split at h
  · rename_i s1 hs; exact promote_quiet _ s1 s' (set_quiet q (by decide) (by decide) hs) h
  · rename_i hne; exact absurd h (hne s')

theorem startLoop_quiet {g : Graph} {par : Nat} (fuel : Nat) (s : S) (p : Bool) (q : Quiet s) :
    startLoop g par (fuel + 1) s p = .inl (s, p) := by
  unfold startLoop
  split
  · rw [q.pq]
  · rfl

/-- The ready loop when every check answers "clean" and keeps the environment predicate. -/
theorem readyLoop_quiet {E : Type} {g : Graph} (c : Choices E) (P : E → Prop)
    (hP : ∀ e b, P e → (c.check e b).1 = some false ∧ P (c.check e b).2) (fuel : Nat) :
    ∀ (s : S) (e : E) (perms : List (List Nat)) (p : Bool), Quiet s → P e →
    match readyLoop g c fuel s e perms p with
    | .inl (s', e', _, _) => Quiet s' ∧ P e'
    | .inr (se, e', _) => Quiet se ∧ P e' := by
  induction fuel with
  | zero => intro s e perms p q pe; simp only [readyLoop]; exact ⟨q, pe⟩
  | succ fuel ih =>
    intro s e perms p q pe
    unfold readyLoop
    cases hr : s.ready with
    | nil => simp only []; exact ⟨q, pe⟩
    | cons id rest =>
      simp only []
      obtain ⟨hc, pe1⟩ := hP e id pe
      have q0 : Quiet { s with ready := rest } := ⟨q.run0, q.stq, q.pq⟩
      cases hchk : c.check e id with
      | mk d e1 =>
        rw [hchk] at hc pe1
        simp only [] at hc pe1
        subst hc
        simp only [Bool.not_false, if_true]
        cases hrd : readyDependents g { s with ready := rest } id (perms.headD []) with
        | ok s1 =>
          simp only [resToRun]
          exact ih s1 e1 perms.tail true (readyDependents_quiet q0 hrd) pe1
        | err m => simp only [resToRun]; exact ⟨q0, pe1⟩
        | panic m => simp only [resToRun]; exact ⟨q0, pe1⟩
        | oob => simp only [resToRun]; exact ⟨q0, pe1⟩
        | overflow => simp only [resToRun]; exact ⟨q0, pe1⟩
        | fuel => simp only [resToRun]; exact ⟨q0, pe1⟩

/-- **A run whose checks all answer "clean" starts nothing**: quiet throughout, the environment
    predicate is kept, no start/finish event is added, `tasks_run`/`tasks_failed` are unchanged, and no
    completion is consumed. -/
theorem runLoop_quiet {E : Type} {g : Graph} {par : Nat} (c : Choices E) (P : E → Prop)
    (hP : ∀ e b, P e → (c.check e b).1 = some false ∧ P (c.check e b).2) (fuel : Nat) :
    ∀ (s : S) (e : E) (perms : List (List Nat)) (fin : List (Nat × Term)), Quiet s → P e →
    Quiet (runLoop g par c fuel s e perms fin).s ∧ P (runLoop g par c fuel s e perms fin).e ∧
    Frame s (runLoop g par c fuel s e perms fin).s ∧ (runLoop g par c fuel s e perms fin).finishes = fin := by
  induction fuel with
  | zero => intro s e perms fin q pe; exact ⟨q, pe, Frame.refl s, rfl⟩
  | succ fuel ih =>
    intro s e perms fin q pe
    unfold runLoop
    split
    · exact ⟨q, pe, Frame.refl s, rfl⟩
    · simp only []
      have qu : Quiet { s with trace := Ev.update (countsList s.counts) :: s.trace } := ⟨q.run0, q.stq, q.pq⟩
      have fu : Frame s { s with trace := Ev.update (countsList s.counts) :: s.trace } := ⟨rfl, rfl, rfl, rfl⟩
      rw [startLoop_quiet g.nBuilds _ false qu]
      simp only []
      have hrl := readyLoop_quiet (g := g) c P hP (g.nBuilds + 1) _ e perms false qu pe
      have hfr := readyLoop_frm (g := g) c (g.nBuilds + 1) { s with trace := Ev.update (countsList s.counts) :: s.trace } e perms false
      cases hres : readyLoop g c (g.nBuilds + 1) { s with trace := Ev.update (countsList s.counts) :: s.trace } e perms false with
      | inr x =>
        obtain ⟨se, e2, r⟩ := x
        rw [hres] at hrl hfr
        exact ⟨hrl.1, hrl.2, fu.trans hfr, rfl⟩
      | inl x =>
        obtain ⟨s2, e2, perms2, p2⟩ := x
        rw [hres] at hrl hfr
        simp only [Bool.false_or]
        split
        · obtain ⟨a1, a2, a3, a4⟩ := ih s2 e2 perms2 fin hrl.1 hrl.2
          exact ⟨a1, a2, (fu.trans hfr).trans a3, a4⟩
        · have hr0 : s2.running ≤ 0 := by rw [hrl.1.run0]; exact Int.le_refl 0
          rw [if_pos hr0]
          split
          · exact ⟨hrl.1, hrl.2, fu.trans hfr, rfl⟩
          · exact ⟨hrl.1, hrl.2, fu.trans hfr, rfl⟩

/-! ### The want phase keeps any predicate that `set … Want/Ready` keeps -/

def WRKeep {α : Type} (Q : S → Prop) : WR α → Prop
  | .ok _ s' => Q s'
  | .err _ s' => Q s'
  | .bad _ => True

theorem want_keep_all (g : Graph) (Q : S → Prop)
    (hQ : ∀ s s' id new, Q s → (new = St.ready ∨ new = St.want) → set g s id new = .ok s' → Q s') :
    ∀ fuel : Nat,
    (∀ s stack f, Q s → WRKeep Q (wantFile g fuel s stack f)) ∧
    (∀ s stack id, Q s → WRKeep Q (wantBuild g fuel s stack id)) ∧
    (∀ s stack fs rd, Q s → WRKeep Q (wantIns g fuel s stack fs rd)) ∧
    (∀ s fs, Q s → WRKeep Q (wantVals g fuel s fs)) := by
  intro fuel
  induction fuel with
  | zero => refine ⟨?_, ?_, ?_, ?_⟩ <;> intros <;> simp [wantFile, wantBuild, wantIns, wantVals, WRKeep]
  | succ fuel ih =>
    obtain ⟨ihF, ihB, ihI, ihV⟩ := ih
    refine ⟨?_, ?_, ?_, ?_⟩
    · intro s stack f q
      unfold wantFile
      split
      · exact q
      · split
        · exact q
        · rename_i bid hprod
          have hb := ihB s (stack ++ [f]) bid q
          split <;> rename_i hw <;> rw [hw] at hb
          · exact hb
          · exact hb
          · trivial
    · intro s stack id q
      unfold wantBuild
      split
      · exact q
      · have hi := ihI s stack (g.build id).ordering true q
        split
        · rename_i rd s1 hins
          rw [hins] at hi
          simp only []
          split
          · rename_i s2 hset
            have q2 : Q s2 := hQ s1 s2 id _ hi (by cases rd <;> simp) hset
            have hv := ihV s2 (g.build id).validation q2
            split <;> rename_i hw <;> rw [hw] at hv
            · exact hv
            · exact hv
            · trivial
          · trivial
          · trivial
        · rename_i m s1 hins; rw [hins] at hi; exact hi
        · trivial
    · intro s stack fs rd q
      cases fs with
      | nil => simp only [wantIns]; exact q
      | cons f fs =>
        simp only [wantIns]
        have hf := ihF s stack f q
        split <;> rename_i hw <;> rw [hw] at hf
        · exact ihI _ stack fs _ hf
        · exact hf
        · trivial
    · intro s fs q
      cases fs with
      | nil => simp only [wantVals]; exact q
      | cons f fs =>
        simp only [wantVals]
        have hf := ihF s [] f q
        split <;> rename_i hw <;> rw [hw] at hf
        · exact ihV _ fs hf
        · exact hf
        · trivial

theorem want_keep (g : Graph) (Q : S → Prop)
    (hQ : ∀ s s' id new, Q s → (new = St.ready ∨ new = St.want) → set g s id new = .ok s' → Q s')
    (s : S) (f : Nat) (q : Q s) : WRKeep Q (want g s f) := by
  have := (want_keep_all g Q hQ (wantFuel g)).1 s [] f q
  unfold want
  cases h : wantFile g (wantFuel g) s [] f with
  | ok a s' => rw [h] at this; exact this
  | err m s' => rw [h] at this; exact this
  | bad m => trivial

theorem want_quiet (g : Graph) (s : S) (f : Nat) (q : Quiet s) : WRKeep Quiet (want g s f) :=
  want_keep g Quiet (fun s s' id new q h hs => set_quiet q (by rcases h with rfl | rfl <;> decide)
    (by rcases h with rfl | rfl <;> decide) hs) s f q

/-! ### The same with a check that relies on the producers having been checked before -/

theorem promote_done_sub {g : Graph} (l : List Nat) (s s' : S) (h : promote g s l = .ok s') :
    ∀ p, s'.st p = .done → s.st p = .done := by
  induction l generalizing s with
  | nil => simp [promote] at h; rw [← h]; exact fun _ h => h
  | cons d ds ih =>
    unfold promote at h
    split at h
    · rename_i s1 hs
      intro p hp
      have h1 := ih s1 h p hp
      obtain ⟨_, _, -, -, hst, -⟩ := set_spec hs
      rw [hst] at h1
      unfold upd at h1
      by_cases e : p = d
      · simp [e] at h1
      · simpa [e] using h1
    · rename_i hne; exact absurd h (hne s')

theorem readyDependents_done_sub {g : Graph} {s s' : S} {id : Nat} {perm : List Nat}
    (h : readyDependents g s id perm = .ok s') : ∀ p, s'.st p = .done → p = id ∨ s.st p = .done := by
  unfold readyDependents at h
  split at h
  · rename_i s1 hs
    intro p hp
    have h1 := promote_done_sub _ s1 s' h p hp
    obtain ⟨_, _, -, -, hst, -⟩ := set_spec hs
    rw [hst] at h1
    unfold upd at h1
    by_cases e : p = id
    · exact Or.inl e
    · right; simpa [e] using h1
  · rename_i hne; exact absurd h (hne s')

theorem resToRun_inr_ne {s0 se : S} {r : Res S} {x : RunResult} (h : resToRun s0 r = .inr (se, x)) : x ≠ .ok true := by
  cases r <;> simp [resToRun] at h <;> (rw [← h.2]; simp)

theorem enqueueRun_inr_ne {g : Graph} {s se : S} {id : Nat} {x : RunResult} (h : enqueueRun g s id = .inr (se, x)) :
    x ≠ .ok true := by
  unfold enqueueRun at h
  split at h
  · split at h
    · cases h
    · cases h; simp
  · exact resToRun_inr_ne h

/-- An error exit of the ready loop is never a success. -/
theorem readyLoop_inr_ne {E : Type} {g : Graph} (c : Choices E) : ∀ (fuel : Nat) (s : S) (e : E) (perms : List (List Nat))
    (p : Bool) (se : S) (e2 : E) (r : RunResult), readyLoop g c fuel s e perms p = .inr (se, e2, r) → r ≠ .ok true := by
  intro fuel
  induction fuel with
  | zero => intro s e perms p se e2 r h; simp [readyLoop] at h; rw [← h.2.2]; simp
  | succ fuel ih =>
    intro s e perms p se e2 r h
    unfold readyLoop at h
    split at h
    · cases h
    · simp only [] at h
      split at h
      · cases h; simp
      · split at h
        · split at h
          · exact ih _ _ _ _ _ _ _ h
          · rename_i hrr; cases h; exact resToRun_inr_ne hrr
        · split at h
          · split at h
            · exact ih _ _ _ _ _ _ _ h
            · rename_i hrr; cases h; exact resToRun_inr_ne hrr
          · split at h
            · exact ih _ _ _ _ _ _ _ h
            · rename_i hrr; cases h; exact enqueueRun_inr_ne hrr

/-- Every `Done` build is known to the environment (e.g. its outputs are in the stat cache). -/
def JD {E : Type} (D : E → Nat → Prop) (s : S) (e : E) : Prop := ∀ p, s.st p = .done → D e p

/-- Everything a gated build transitively depends on (through ordering inputs) is `Done`. -/
theorem Inv.anc_done {g : Graph} {par : Nat} {s : S} (inv : Inv g par s) {b p : Nat} (ha : Anc g b p)
    (hg : gated (s.st b)) : s.st p = .done := by
  induction ha with
  | direct hf hp => exact inv.ordered _ hg _ hf _ hp
  | step _ _ ih1 ih2 => exact ih2 (by rw [ih1 hg]; simp [gated])

/-- What the check is assumed to do on the builds in `W`: given that every build the step
    transitively depends on (through ordering inputs) is known, it answers "clean", keeps `P`,
    makes the build known and forgets nothing. -/
def CleanCheck {E : Type} (g : Graph) (c : Choices E) (P : E → Prop) (D : E → Nat → Prop) (W : Nat → Prop) : Prop :=
  ∀ e b, P e → W b → (∀ p, Anc g b p → D e p) →
    (c.check e b).1 = some false ∧ P (c.check e b).2 ∧ D (c.check e b).2 b ∧ ∀ p, D e p → D (c.check e b).2 p

theorem readyLoop_quiet2 {E : Type} {g : Graph} {par : Nat} (c : Choices E) (P : E → Prop) (D : E → Nat → Prop)
    (W : Nat → Prop) (hD : CleanCheck g c P D W) (fuel : Nat) :
    ∀ (s : S) (e : E) (perms : List (List Nat)) (p : Bool), Inv g par s → Quiet s → P e → JD D s e →
    (∀ b, s.st b ≠ .unknown → W b) →
    match readyLoop g c fuel s e perms p with
    | .inl (s', e', _, _) => Inv g par s' ∧ Quiet s' ∧ P e' ∧ JD D s' e'
    | .inr (se, e', _) => Quiet se ∧ P e' := by
  induction fuel with
  | zero => intro s e perms p _ q pe _ _; simp only [readyLoop]; exact ⟨q, pe⟩
  | succ fuel ih =>
    intro s e perms p inv q pe jd hW
    unfold readyLoop
    cases hr : s.ready with
    | nil => simp only []; exact ⟨inv, q, pe, jd⟩
    | cons id rest =>
      simp only []
      have hstid : s.st id = .ready := inv.readySt id (by simp [hr])
      have hprod : ∀ p, Anc g id p → D e p := fun p ha => jd p (inv.anc_done ha (Or.inl hstid))
      have hWid : W id := hW id (by rw [hstid]; simp)
      have hid0 : ({ s with ready := rest } : S).st id ≠ .unknown := by show s.st id ≠ .unknown; rw [hstid]; simp
      obtain ⟨hc, pe1, hdid, hmono⟩ := hD e id pe hWid hprod
      have q0 : Quiet { s with ready := rest } := ⟨q.run0, q.stq, q.pq⟩
      cases hchk : c.check e id with
      | mk d e1 =>
        rw [hchk] at hc pe1 hdid hmono
        simp only [] at hc pe1 hdid hmono
        subst hc
        simp only [Bool.not_false, if_true]
        cases hrd : readyDependents g { s with ready := rest } id (perms.headD []) with
        | ok s1 =>
          simp only [resToRun]
          refine ih s1 e1 perms.tail true (clean_inv inv hr hrd) (readyDependents_quiet q0 hrd) pe1 ?_
            (fun b hb => hW b (readyDependents_keeps hid0 hrd b hb))
          intro p hp
          rcases readyDependents_done_sub hrd p hp with rfl | h
          · exact hdid
          · exact hmono p (jd p h)
        | err m => simp only [resToRun]; exact ⟨q0, pe1⟩
        | panic m => simp only [resToRun]; exact ⟨q0, pe1⟩
        | oob => simp only [resToRun]; exact ⟨q0, pe1⟩
        | overflow => simp only [resToRun]; exact ⟨q0, pe1⟩
        | fuel => simp only [resToRun]; exact ⟨q0, pe1⟩

theorem runLoop_quiet2 {E : Type} {g : Graph} {par : Nat} (c : Choices E) (P : E → Prop) (D : E → Nat → Prop)
    (W : Nat → Prop) (hD : CleanCheck g c P D W) (fuel : Nat) :
    ∀ (s : S) (e : E) (perms : List (List Nat)) (fin : List (Nat × Term)), Inv g par s → Quiet s → P e → JD D s e →
    (∀ b, s.st b ≠ .unknown → W b) →
    Quiet (runLoop g par c fuel s e perms fin).s ∧ P (runLoop g par c fuel s e perms fin).e ∧
    Frame s (runLoop g par c fuel s e perms fin).s ∧ (runLoop g par c fuel s e perms fin).finishes = fin ∧
    ((runLoop g par c fuel s e perms fin).result = .ok true →
      Inv g par (runLoop g par c fuel s e perms fin).s ∧ JD D (runLoop g par c fuel s e perms fin).s (runLoop g par c fuel s e perms fin).e) := by
  induction fuel with
  | zero => intro s e perms fin _ q pe _ _; exact ⟨q, pe, Frame.refl s, rfl, fun h => by simp [runLoop] at h⟩
  | succ fuel ih =>
    intro s e perms fin inv q pe jd hW
    unfold runLoop
    split
    · exact ⟨q, pe, Frame.refl s, rfl, fun _ => ⟨inv, jd⟩⟩
    · simp only []
      have qu : Quiet { s with trace := Ev.update (countsList s.counts) :: s.trace } := ⟨q.run0, q.stq, q.pq⟩
      have fu : Frame s { s with trace := Ev.update (countsList s.counts) :: s.trace } := ⟨rfl, rfl, rfl, rfl⟩
      have iu : Inv g par { s with trace := Ev.update (countsList s.counts) :: s.trace } :=
        Inv.of_sameCore (s := s) (s' := { s with trace := Ev.update (countsList s.counts) :: s.trace }) ⟨rfl, rfl, rfl, rfl, rfl, rfl⟩ inv
      have ju : JD D { s with trace := Ev.update (countsList s.counts) :: s.trace } e := jd
      rw [startLoop_quiet g.nBuilds _ false qu]
      simp only []
      have hrl := readyLoop_quiet2 (g := g) (par := par) c P D W hD (g.nBuilds + 1) _ e perms false iu qu pe ju hW
      have hkp := readyLoop_keeps (g := g) (par := par) c (g.nBuilds + 1) { s with trace := Ev.update (countsList s.counts) :: s.trace } e perms false iu
      have hfr := readyLoop_frm (g := g) c (g.nBuilds + 1) { s with trace := Ev.update (countsList s.counts) :: s.trace } e perms false
      cases hres : readyLoop g c (g.nBuilds + 1) { s with trace := Ev.update (countsList s.counts) :: s.trace } e perms false with
      | inr x =>
        obtain ⟨se, e2, r⟩ := x
        rw [hres] at hrl hfr
        refine ⟨hrl.1, hrl.2, fu.trans hfr, rfl, ?_⟩
        intro h
        -- an error exit of the ready loop is never `.ok true`
        exfalso
        have hne : r ≠ .ok true := readyLoop_inr_ne c _ _ _ _ _ _ _ _ hres
        exact hne h
      | inl x =>
        obtain ⟨s2, e2, perms2, p2⟩ := x
        rw [hres] at hrl hfr hkp
        simp only [Bool.false_or]
        split
        · obtain ⟨a1, a2, a3, a4, a5⟩ := ih s2 e2 perms2 fin hrl.1 hrl.2.1 hrl.2.2.1 hrl.2.2.2 (fun b hb => hW b (hkp b hb))
          exact ⟨a1, a2, (fu.trans hfr).trans a3, a4, a5⟩
        · have hr0 : s2.running ≤ 0 := by rw [hrl.2.1.run0]; exact Int.le_refl 0
          rw [if_pos hr0]
          split
          · exact ⟨hrl.2.1, hrl.2.2.1, fu.trans hfr, rfl, fun h => by simp at h⟩
          · exact ⟨hrl.2.1, hrl.2.2.1, fu.trans hfr, rfl, fun h => by simp at h⟩
end N2V.Sched
