/-
  The want phase preserves the whole scheduler invariant.

  `want_build` can be re-entered for a build whose first visit has not assigned a state yet
  (through a validation edge of something it depends on: validation inputs are visited with a
  fresh cycle stack *after* the depended-on build got its state).  The second visit then assigns
  first, and the outer one assigns again.  The theorem below shows this is harmless: the outer
  assignment is then always `Want` over `Want`; in particular a build is never appended to the
  ready queue twice.  Joint induction on the fuel of the four mutually recursive functions.
-/
import N2V.Lemmas.SchedTrace
import N2V.Lemmas.SchedFrame
import N2V.Lemmas.SchedProgress
import N2V.Lemmas.SchedWant
namespace N2V.Sched

/-- The only thing the theorems ask of the graph: producers are builds of the graph
    (`File::input` holds a `BuildId` that indexes `graph.builds`). -/
def GraphOK (g : Graph) : Prop := ∀ f p, g.producer f = some p → p < g.nBuilds

/-- What one call of the want phase may do to the state. -/
structure WRel (g : Graph) (par : Nat) (s s' : S) : Prop where
  inv : Inv g par s'
  frame : ∀ b, s.st b ≠ .unknown → s'.st b = s.st b
  mono : ∀ b, s.st b = .unknown → s'.st b = .unknown ∨ s'.st b = .want ∨ s'.st b = .ready
  tinv : ∀ shape, TInv g par shape s → TInv g par shape s'
  frm : Frame s s'
  pinv : PInv g s → PInv g s'

theorem WRel.refl {g : Graph} {par : Nat} {s : S} (inv : Inv g par s) : WRel g par s s :=
  ⟨inv, fun _ _ => rfl, fun _ h => Or.inl h, fun _ t => t, Frame.refl s, fun q => q⟩

theorem WRel.trans {g : Graph} {par : Nat} {a b c : S} (h1 : WRel g par a b) (h2 : WRel g par b c) :
    WRel g par a c := by
  refine ⟨h2.inv, ?_, ?_, fun sh t => h2.tinv sh (h1.tinv sh t), h1.frm.trans h2.frm, fun q => h2.pinv (h1.pinv q)⟩
  · intro x hx
    have := h1.frame x hx
    rw [h2.frame x (by rw [this]; exact hx), this]
  · intro x hx
    rcases h1.mono x hx with h | h | h
    · exact h2.mono x h
    · right; left; rw [h2.frame x (by rw [h]; simp), h]
    · right; right; rw [h2.frame x (by rw [h]; simp), h]

def PF (g : Graph) (par : Nat) (s : S) (f : Nat) : WR Bool → Prop
  | .ok r s' => WRel g par s s' ∧
      (r = true → s' = s ∧ ∀ p, g.producer f = some p → s.st p = .done) ∧
      (r = false → ∃ p, g.producer f = some p ∧ s'.st p ≠ .done ∧ s'.st p ≠ .unknown) ∧
      (∀ p, g.producer f = some p → s'.st p ≠ .unknown)
  | .err _ s' => WRel g par s s'
  | .bad _ => True

def PB (g : Graph) (par : Nat) (s : S) (id : Nat) : WR St → Prop
  | .ok x s' => WRel g par s s' ∧ s'.st id = x ∧ x ≠ .unknown ∧ (x = .done → s' = s)
  | .err _ s' => WRel g par s s'
  | .bad _ => True

def PI (g : Graph) (par : Nat) (s : S) (fs : List Nat) (rd : Bool) : WR Bool → Prop
  | .ok r s' => WRel g par s s' ∧
      (r = true → s' = s ∧ rd = true ∧ ∀ f ∈ fs, ∀ p, g.producer f = some p → s.st p = .done) ∧
      (r = false → rd = false ∨
        ∃ f ∈ fs, ∃ p, g.producer f = some p ∧ s'.st p ≠ .done ∧ s'.st p ≠ .unknown) ∧
      (∀ f ∈ fs, ∀ p, g.producer f = some p → s'.st p ≠ .unknown)
  | .err _ s' => WRel g par s s'
  | .bad _ => True

def PV (g : Graph) (par : Nat) (s : S) : WR Unit → Prop
  | .ok _ s' => WRel g par s s'
  | .err _ s' => WRel g par s s'
  | .bad _ => True

/-- `set` to `Want`/`Ready` of a build that is `Unknown`, or `Want` over `Want`. -/
theorem set_want_inv {g : Graph} {par : Nat} {s s' : S} {id : Nat} {new : St}
    (inv : Inv g par s) (hid : id < g.nBuilds) (h : set g s id new = .ok s')
    (hnew : new = .want ∨ new = .ready)
    (hprev : s.st id = .unknown ∨ (s.st id = .want ∧ new = .want))
    (hord : new = .ready → ∀ f ∈ (g.build id).ordering, ∀ p, g.producer f = some p → s.st p = .done)
    (hw : new = .want → recheckReady g s id = false)
    (hclo : ∀ f ∈ (g.build id).ordering, ∀ p, g.producer f = some p → s.st p ≠ .unknown) :
    WRel g par s s' := by
  have hp1 : s.st id ≠ .done ∧ s.st id ≠ .failed ∧ s.st id ≠ .ready ∧ s.st id ≠ .queued ∧ s.st id ≠ .running := by
    rcases hprev with h | ⟨h, _⟩ <;> rw [h] <;> simp
  have hn1 : new ≠ .unknown ∧ new ≠ .running := by rcases hnew with h | h <;> rw [h] <;> simp
  have hcore := set_core inv.toInvCore h hid hn1.1 ⟨hp1.1, hp1.2.1⟩
    (fun e => absurd e hp1.2.2.1) (fun e => absurd e hp1.2.2.2.1)
    (fun hg => hord (by
      rcases hnew with h | h
      · rw [h] at hg; simp [gated] at hg
      · exact h))
  have hlim := set_limits_same inv h hid (runDelta_zero hp1.2.2.2.2 hn1.2)
  obtain ⟨_, _, -, -, hst, -⟩ := set_spec h
  have hlegal : legal (s.st id) new = true := by
    rcases hprev with h | ⟨h, h2⟩
    · rw [h]; rcases hnew with h' | h' <;> rw [h'] <;> rfl
    · rw [h, h2]; rfl
  refine ⟨{ hcore with running := hlim.1, parBound := hlim.2.1, depthBound := hlim.2.2 }, ?_, ?_,
          fun sh t => set_tinv t hcore.exact h hid hlegal (fun e => absurd e hn1.2), set_frm h, ?_⟩
  · intro b hb
    rw [hst]
    by_cases e : b = id
    · subst e
      rcases hprev with h | ⟨h, h2⟩
      · exact absurd h hb
      · simp [h, h2]
    · rw [upd_other _ _ _ _ e]
  · intro b hb
    rw [hst]
    by_cases e : b = id
    · subst e; simp; rcases hnew with h | h <;> simp [h]
    · rw [upd_other _ _ _ _ e]; exact Or.inl hb

  · intro q
    obtain ⟨_, _, -, -, _, -, -, hrd, -, -, htf, -⟩ := set_spec h
    have hdone : ∀ x, (s'.st x = .done ↔ s.st x = .done) := by
      intro x; rw [hst]
      by_cases e : x = id
      · subst e
        simp
        constructor
        · intro e'; rcases hnew with h' | h' <;> rw [h'] at e' <;> cases e'
        · intro e'; exact absurd e' hp1.1
      · rw [upd_other _ _ _ _ e]
    refine ⟨?_, ?_, ?_, ?_, ?_⟩
    · intro b hb
      rw [hrd]
      rw [hst] at hb
      by_cases e : b = id
      · subst e
        simp at hb
        simp [hb]
      · rw [upd_other _ _ _ _ e] at hb
        have := q.rdy b hb
        split <;> simp [this]
    · intro b hb
      rw [hst] at hb
      by_cases e : b = id
      · subst e; simp at hb; rcases hnew with h' | h' <;> rw [h'] at hb <;> cases hb
      · rw [upd_other _ _ _ _ e] at hb
        exact set_queued_mem h b (q.que b hb)
    · intro b hb
      rw [recheckReady_congr g s s' b hdone]
      rw [hst] at hb
      by_cases e : b = id
      · subst e; simp at hb; exact hw hb
      · rw [upd_other _ _ _ _ e] at hb; exact q.wnt b hb
    · intro b hb f hf p hp
      rw [hst] at hb ⊢
      by_cases e : p = id
      · subst e; simp; exact hn1.1
      · rw [upd_other _ _ _ _ e]
        by_cases e2 : b = id
        · subst e2; exact hclo f hf p hp
        · rw [upd_other _ _ _ _ e2] at hb; exact q.clo b hb f hf p hp
    · intro b hb
      rw [htf]
      rw [hst] at hb
      by_cases e : b = id
      · subst e; simp at hb; rcases hnew with h' | h' <;> rw [h'] at hb <;> cases hb
      · rw [upd_other _ _ _ _ e] at hb; exact q.fld b hb

theorem want_inv_all {g : Graph} {par : Nat} (gok : GraphOK g) : ∀ fuel : Nat,
    (∀ s stack f, Inv g par s → PF g par s f (wantFile g fuel s stack f)) ∧
    (∀ s stack id, Inv g par s → id < g.nBuilds → PB g par s id (wantBuild g fuel s stack id)) ∧
    (∀ s stack fs rd, Inv g par s → PI g par s fs rd (wantIns g fuel s stack fs rd)) ∧
    (∀ s fs, Inv g par s → PV g par s (wantVals g fuel s fs)) := by
  intro fuel
  induction fuel with
  | zero => refine ⟨?_, ?_, ?_, ?_⟩ <;> intros <;> simp [wantFile, wantBuild, wantIns, wantVals, PF, PB, PI, PV]
  | succ fuel ih =>
    obtain ⟨ihF, ihB, ihI, ihV⟩ := ih
    refine ⟨?_, ?_, ?_, ?_⟩
    · intro s stack f inv
      unfold wantFile
      split
      · exact WRel.refl inv
      · split
        · rename_i hprod
          refine ⟨WRel.refl inv, fun _ => ⟨rfl, ?_⟩, (fun h => by cases h), ?_⟩
          · intro p hp; rw [hprod] at hp; cases hp
          · intro p hp; rw [hprod] at hp; cases hp
        · rename_i bid hprod
          have hb := ihB s (stack ++ [f]) bid inv (gok f bid hprod)
          split <;> rename_i hw <;> rw [hw] at hb
          · rename_i state s'
            obtain ⟨rel, hst, hne, hdone⟩ := hb
            refine ⟨rel, ?_, ?_, ?_⟩
            rotate_left 2
            · intro p hp; rw [hprod] at hp; cases hp; rw [hst]; exact hne
            · intro hd
              have hd' : state = .done := by simpa using hd
              have e := hdone hd'
              refine ⟨e, ?_⟩
              intro p hp; rw [hprod] at hp; cases hp
              rw [← e, hst]; exact hd'
            · intro hd
              have hd' : state ≠ .done := by simpa using hd
              exact ⟨bid, hprod, by rw [hst]; exact hd', by rw [hst]; exact hne⟩
          · exact hb
          · trivial
    · intro s stack id inv hid
      unfold wantBuild
      split
      · rename_i hk
        exact ⟨WRel.refl inv, rfl, hk, fun _ => rfl⟩
      · rename_i hunk
        simp at hunk
        have hi := ihI s stack (g.build id).ordering true inv
        split
        · rename_i rd s1 hins
          rw [hins] at hi
          obtain ⟨rel1, htrue, hfalse, hclo1⟩ := hi
          simp only []
          generalize hstate : (if rd = true then St.ready else St.want) = state
          have hnew : state = .want ∨ state = .ready := by rw [← hstate]; split <;> simp
          have hsne : state ≠ .unknown ∧ state ≠ .done := by rcases hnew with h | h <;> rw [h] <;> simp
          split
          · rename_i s2 hs
            have rel2 : WRel g par s1 s2 := by
              cases rd with
              | true =>
                obtain ⟨e, -, hall⟩ := htrue rfl
                subst e
                exact set_want_inv rel1.inv hid hs hnew (Or.inl hunk) (fun _ => hall)
                  (fun e => by rw [← hstate] at e; simp at e) hclo1
              | false =>
                have hw : state = .want := by rw [← hstate]; simp
                have hrf : recheckReady g s1 id = false := by
                  cases hrr : recheckReady g s1 id with
                  | false => rfl
                  | true =>
                    exfalso
                    rcases hfalse rfl with h0 | ⟨f, hf, p, hp, hnd, -⟩
                    · cases h0
                    · exact hnd (recheckReady_sound g s1 id hrr f hf p hp)
                refine set_want_inv rel1.inv hid hs hnew ?_ (fun e => by rw [hw] at e; cases e) (fun _ => hrf) hclo1
                rcases rel1.mono id hunk with h | h | h
                · exact Or.inl h
                · exact Or.inr ⟨h, hw⟩
                · exfalso
                  rcases hfalse rfl with h0 | ⟨f, hf, p, hp, hnd, -⟩
                  · cases h0
                  · exact hnd (rel1.inv.ordered id (by rw [h]; simp [gated]) f hf p hp)
            have hst2 : s2.st id = state := by
              obtain ⟨_, _, -, -, hst, -⟩ := set_spec hs
              rw [hst]; simp
            have hv := ihV s2 (g.build id).validation rel2.inv
            split <;> rename_i hvv <;> rw [hvv] at hv
            · rename_i s3
              refine ⟨(rel1.trans rel2).trans hv, ?_, hsne.1, fun e => absurd e hsne.2⟩
              rw [hv.frame id (by rw [hst2]; exact hsne.1), hst2]
            · exact (rel1.trans rel2).trans hv
            · trivial
          · trivial
          · trivial
        · rename_i m s1 hins
          rw [hins] at hi; exact hi
        · trivial
    · intro s stack fs rd inv
      cases fs with
      | nil =>
        simp only [wantIns]
        refine ⟨WRel.refl inv, fun h => ⟨rfl, h, by simp⟩, fun h => Or.inl h, by simp⟩
      | cons f fs =>
        simp only [wantIns]
        have hf := ihF s stack f inv
        split <;> rename_i hff <;> rw [hff] at hf
        · rename_i r s'
          obtain ⟨relf, ftrue, ffalse, fclo⟩ := hf
          have h2 := ihI s' stack fs (rd && r) relf.inv
          revert h2
          cases wantIns g fuel s' stack fs (rd && r) with
          | ok r2 s2 =>
            intro h2
            obtain ⟨rel2, itrue, ifalse, iclo⟩ := h2
            refine ⟨relf.trans rel2, ?_, ?_, ?_⟩
            rotate_left 2
            · intro x hx p hp
              simp at hx
              rcases hx with rfl | hx
              · rw [rel2.frame p (fclo p hp)]; exact fclo p hp
              · exact iclo x hx p hp
            · intro hr2
              obtain ⟨e2, hand, hall⟩ := itrue hr2
              have hrd : rd = true ∧ r = true := by simpa using hand
              obtain ⟨e1, hfp⟩ := ftrue hrd.2
              subst e2; subst e1
              refine ⟨rfl, hrd.1, ?_⟩
              intro x hx
              simp at hx
              rcases hx with rfl | hx
              · exact hfp
              · exact hall x hx
            · intro hr2
              rcases ifalse hr2 with hand | ⟨x, hx, p, hp, h1, h2⟩
              · have : rd = false ∨ r = false := by
                  cases rd <;> cases r <;> simp at hand ⊢
                rcases this with h | h
                · exact Or.inl h
                · right
                  obtain ⟨p, hp, h1, h2⟩ := ffalse h
                  refine ⟨f, by simp, p, hp, ?_, ?_⟩ <;> rw [rel2.frame p h2] <;> assumption
              · exact Or.inr ⟨x, by simp [hx], p, hp, h1, h2⟩
          | err m s2 => intro h2; exact relf.trans h2
          | bad m => intro _; trivial
        · exact hf
        · trivial
    · intro s fs inv
      cases fs with
      | nil => simp only [wantVals]; exact WRel.refl inv
      | cons f fs =>
        simp only [wantVals]
        have hf := ihF s [] f inv
        split <;> rename_i hff <;> rw [hff] at hf
        · rename_i r s'
          have h2 := ihV s' fs hf.1.inv
          revert h2
          cases wantVals g fuel s' fs with
          | ok a s2 => intro h2; exact hf.1.trans h2
          | err m s2 => intro h2; exact hf.1.trans h2
          | bad m => intro _; trivial
        · exact hf
        · trivial

/-- **`Work::want_file` preserves the scheduler invariant** (on success, and also in the state
    it leaves behind when it fails part-way with a dependency cycle). -/
theorem want_inv {g : Graph} {par : Nat} (gok : GraphOK g) (s s' : S) (f : Nat) (inv : Inv g par s)
    (h : want g s f = .ok () s') : WRel g par s s' := by
  unfold want at h
  have := (want_inv_all gok (wantFuel g)).1 s [] f inv
  split at h <;> rename_i hw
  · cases h; rw [hw] at this; exact this.1
  · cases h
  · cases h

theorem want_inv_err {g : Graph} {par : Nat} (gok : GraphOK g) (s s' : S) (f : Nat) (m : String)
    (inv : Inv g par s) (h : want g s f = .err m s') : WRel g par s s' := by
  unfold want at h
  have := (want_inv_all gok (wantFuel g)).1 s [] f inv
  split at h <;> rename_i hw
  · cases h
  · cases h; rw [hw] at this; exact this
  · cases h

end N2V.Sched
