/-
  The want phase terminates: with the fuel `wantFuel g` the mutually recursive
  `want_file`/`want_build` (and the loops over ordering and validation inputs) never run out of
  fuel, for every graph whose cross references are in range, every state and every target —
  including the re-entrant visits through validation edges and arbitrarily long (repeated)
  input lists.

  Measure: Φ(s, stack) = (#builds still Unknown) · (F+1) + (#files not on the cycle stack).
  Descending into a producer pushes a file that is not on the stack (Φ drops by one); crossing a
  validation edge restarts with an empty stack, but only after the build was marked (one Unknown
  fewer, Φ drops by at least one).  A frame at potential Φ needs at most K·Φ + 2 levels of fuel,
  K = longest input list + 3 (walking a list of length n costs n levels).
-/
import N2V.Lemmas.SchedClean
import N2V.Lemmas.Canon
namespace N2V.Sched

/-- Files named in input lists are files of the graph. -/
def FilesOK (g : Graph) : Prop :=
  ∀ b, b < g.nBuilds → ∀ f ∈ (g.build b).ordering ++ (g.build b).validation, f < g.nFiles

theorem foldl_max_ge (l : List Nat) (f : Nat → Nat) (m0 : Nat) :
    m0 ≤ l.foldl (fun m b => max m (f b)) m0 ∧ ∀ b ∈ l, f b ≤ l.foldl (fun m b => max m (f b)) m0 := by
  induction l generalizing m0 with
  | nil => exact ⟨Nat.le_refl _, fun b hb => by cases hb⟩
  | cons x xs ih =>
    simp only [List.foldl_cons]
    obtain ⟨h1, h2⟩ := ih (max m0 (f x))
    refine ⟨Nat.le_trans (Nat.le_max_left _ _) h1, ?_⟩
    intro b hb
    rcases List.mem_cons.mp hb with rfl | hb
    · exact Nat.le_trans (Nat.le_max_right _ _) h1
    · exact h2 b hb

theorem le_maxIns (g : Graph) (b : Nat) (hb : b < g.nBuilds) :
    (g.build b).ordering.length ≤ maxIns g ∧ (g.build b).validation.length ≤ maxIns g := by
  have := (foldl_max_ge (List.range g.nBuilds)
    (fun b => max (g.build b).ordering.length (g.build b).validation.length) 0).2 b (List.mem_range.mpr hb)
  unfold maxIns
  constructor
  · exact Nat.le_trans (Nat.le_max_left _ _) this
  · exact Nat.le_trans (Nat.le_max_right _ _) this

/-! ### The potential -/

/-- Builds still `Unknown`. -/
def unk (g : Graph) (s : S) : Nat := cnt g.nBuilds (fun b => s.st b == .unknown)
/-- Files not on the cycle stack. -/
def offStack (g : Graph) (stack : List Nat) : Nat := cnt g.nFiles (fun x => !stack.contains x)

def pot (g : Graph) (s : S) (stack : List Nat) : Nat := unk g s * (g.nFiles + 1) + offStack g stack

def Mono (s s' : S) : Prop := ∀ b, s.st b ≠ .unknown → s'.st b ≠ .unknown

theorem Mono.refl (s : S) : Mono s s := fun _ h => h
theorem Mono.trans {a b c : S} (h1 : Mono a b) (h2 : Mono b c) : Mono a c := fun x h => h2 x (h1 x h)

theorem cnt_mono (n : Nat) (p q : Nat → Bool) (h : ∀ b, b < n → p b = true → q b = true) : cnt n p ≤ cnt n q := by
  induction n with
  | zero => simp [cnt]
  | succ n ih =>
    rw [cnt_succ, cnt_succ]
    have := ih (fun b hb => h b (by omega))
    have hn := h n (by omega)
    cases hp : p n with
    | false => simp; omega
    | true => rw [hn hp]; simp; omega

theorem cnt_flip (n : Nat) (p q : Nat → Bool) (id : Nat) (hid : id < n) (h : ∀ b, b ≠ id → p b = q b)
    (hp : p id = false) (hq : q id = true) : cnt n q = cnt n p + 1 := by
  have := cnt_update n p q id hid h
  rw [hp, hq] at this
  simp at this
  omega

theorem cnt_lt (n : Nat) (p q : Nat → Bool) (h : ∀ b, b < n → p b = true → q b = true)
    (id : Nat) (hid : id < n) (hq : q id = true) (hp : p id = false) : cnt n p + 1 ≤ cnt n q := by
  -- compare p with q' = q except false at id
  have h1 : cnt n p ≤ cnt n (fun b => if b = id then false else q b) := by
    apply cnt_mono
    intro b hb hpb
    by_cases e : b = id
    · subst e; rw [hp] at hpb; cases hpb
    · simp [e]; exact h b hb hpb
  have h2 := cnt_flip n (fun b => if b = id then false else q b) q id hid (fun b hb => by simp [hb]) (by simp) hq
  omega

theorem unk_mono (g : Graph) {s s' : S} (h : Mono s s') : unk g s' ≤ unk g s := by
  apply cnt_mono
  intro b _ hb
  simp only [beq_iff_eq] at hb ⊢
  cases hs : s.st b with
  | unknown => rfl
  | _ => exact absurd hb (h b (by rw [hs]; simp))

theorem unk_lt (g : Graph) {s s' : S} (h : Mono s s') (id : Nat) (hid : id < g.nBuilds)
    (hu : s.st id = .unknown) (hk : s'.st id ≠ .unknown) : unk g s' + 1 ≤ unk g s := by
  refine cnt_lt g.nBuilds (fun b => s'.st b == .unknown) (fun b => s.st b == .unknown) ?_ id hid ?_ ?_
  · intro b _ hb
    simp only [beq_iff_eq] at hb ⊢
    cases hs : s.st b with
    | unknown => rfl
    | _ => exact absurd hb (h b (by rw [hs]; simp))
  · simp only [beq_iff_eq]; exact hu
  · cases hs : s'.st id with
    | unknown => exact absurd hs hk
    | _ => rfl

theorem offStack_le (g : Graph) (stack : List Nat) : offStack g stack ≤ g.nFiles := cnt_le _ _

theorem offStack_push (g : Graph) (stack : List Nat) (f : Nat) (hf : f < g.nFiles) (hn : f ∉ stack) :
    offStack g (stack ++ [f]) + 1 = offStack g stack := by
  unfold offStack
  have := cnt_flip g.nFiles (fun x => !(stack ++ [f]).contains x) (fun x => !stack.contains x) f hf
    (fun b hb => by simp [hb]) (by simp) (by simpa using hn)
  omega

/-! ### The want phase only marks (never un-marks) builds -/

theorem set_mono {g : Graph} {s s' : S} {id : Nat} {new : St} (hn : new ≠ .unknown)
    (h : set g s id new = .ok s') : Mono s s' := by
  obtain ⟨_, _, -, -, hst, -⟩ := set_spec h
  intro b hb
  rw [hst]
  unfold upd
  by_cases e : b = id
  · simp [e, hn]
  · simp [e]; exact hb

theorem want_mono_all (g : Graph) (s0 : S) (fuel : Nat) :
    (∀ s stack f, Mono s0 s → WRKeep (Mono s0) (wantFile g fuel s stack f)) ∧
    (∀ s stack id, Mono s0 s → WRKeep (Mono s0) (wantBuild g fuel s stack id)) ∧
    (∀ s stack fs rd, Mono s0 s → WRKeep (Mono s0) (wantIns g fuel s stack fs rd)) ∧
    (∀ s fs, Mono s0 s → WRKeep (Mono s0) (wantVals g fuel s fs)) :=
  want_keep_all g (Mono s0) (fun s s' id new q hnew hs =>
    q.trans (set_mono (by rcases hnew with rfl | rfl <;> decide) hs)) fuel

/-! ### Never out of fuel -/

/-- The outcome is not the model's "ran out of fuel". -/
def FuelOK {α : Type} : WR α → Prop
  | .bad m => m ≠ "fuel"
  | _ => True

theorem set_panic_msg {g : Graph} {s : S} {id : Nat} {new : St} {m : String} (h : set g s id new = .panic m) :
    m ≠ "fuel" := by
  unfold set at h
  simp only at h
  split at h
  · cases h; decide
  · split at h
    · cases h; decide
    · cases h

theorem term_all (g : Graph) (gok : GraphOK g) (fok : FilesOK g) : ∀ fuel : Nat,
    (∀ s stack f, f < g.nFiles → (maxIns g + 3) * pot g s stack + 2 ≤ fuel → FuelOK (wantFile g fuel s stack f)) ∧
    (∀ s stack id, id < g.nBuilds → 1 ≤ fuel →
      (s.st id = .unknown → (maxIns g + 3) * pot g s stack + maxIns g + 4 ≤ fuel) → FuelOK (wantBuild g fuel s stack id)) ∧
    (∀ s stack fs rd, (∀ f ∈ fs, f < g.nFiles) → fs.length + (maxIns g + 3) * pot g s stack + 3 ≤ fuel →
      FuelOK (wantIns g fuel s stack fs rd)) ∧
    (∀ s fs, (∀ f ∈ fs, f < g.nFiles) → fs.length + (maxIns g + 3) * pot g s [] + 3 ≤ fuel →
      FuelOK (wantVals g fuel s fs)) := by
  intro fuel
  induction fuel with
  | zero =>
    refine ⟨?_, ?_, ?_, ?_⟩
    · intro s stack f _ h; omega
    · intro s stack id _ h; omega
    · intro s stack fs rd _ h; omega
    · intro s fs _ h; omega
  | succ fuel ih =>
    obtain ⟨ihF, ihB, ihI, ihV⟩ := ih
    refine ⟨?_, ?_, ?_, ?_⟩
    · -- want_file
      intro s stack f hf hfuel
      unfold wantFile
      split
      · trivial
      · rename_i hidx
        have hnot : f ∉ stack := List.idxOf?_eq_none_iff.mp hidx
        split
        · trivial
        · rename_i bid hprod
          have hpot : pot g s (stack ++ [f]) + 1 = pot g s stack := by
            unfold pot; have := offStack_push g stack f hf hnot; omega
          have hmul : (maxIns g + 3) * pot g s stack = (maxIns g + 3) * pot g s (stack ++ [f]) + (maxIns g + 3) := by
            rw [← hpot, Nat.mul_succ]
          have hb := ihB s (stack ++ [f]) bid (gok f bid hprod) (by omega) (fun _ => by omega)
          split <;> rename_i hw <;> rw [hw] at hb
          · trivial
          · trivial
          · exact hb
    · -- want_build
      intro s stack id hid h1 hfuel
      unfold wantBuild
      split
      · trivial
      · rename_i hne
        have hu : s.st id = .unknown := by simpa using hne
        have hf := hfuel hu
        obtain ⟨lo, lv⟩ := le_maxIns g id hid
        have hi := ihI s stack (g.build id).ordering true
          (fun f hf' => fok id hid f (by simp [hf'])) (by omega)
        have hm := (want_mono_all g s fuel).2.2.1 s stack (g.build id).ordering true (Mono.refl s)
        split
        · rename_i rd s1 hins
          rw [hins] at hm
          simp only []
          split
          · rename_i s2 hset
            have m12 : Mono s1 s2 := set_mono (by cases rd <;> simp) hset
            have hk2 : s2.st id ≠ .unknown := by
              obtain ⟨_, _, -, -, hst, -⟩ := set_spec hset
              rw [hst]; unfold upd; cases rd <;> simp
            have hlt := unk_lt g (Mono.trans hm m12) id hid hu hk2
            -- potential at the validation loop: one Unknown fewer, empty stack
            have hpv : pot g s2 [] + 1 ≤ pot g s stack := by
              unfold pot
              have h1 := offStack_le g []
              have : (unk g s2 + 1) * (g.nFiles + 1) ≤ unk g s * (g.nFiles + 1) := Nat.mul_le_mul_right _ hlt
              rw [Nat.add_mul] at this
              omega
            have hmul : (maxIns g + 3) * pot g s2 [] + (maxIns g + 3) ≤ (maxIns g + 3) * pot g s stack := by
              have := Nat.mul_le_mul_left (maxIns g + 3) hpv
              rw [Nat.mul_succ] at this
              exact this
            have hv := ihV s2 (g.build id).validation (fun f hf' => fok id hid f (by simp [hf'])) (by omega)
            split <;> rename_i hw <;> rw [hw] at hv
            · trivial
            · trivial
            · exact hv
          · rename_i m hp; exact set_panic_msg hp
          · show "set" ≠ "fuel"; decide
        · trivial
        · rename_i m hins; rw [hins] at hi; exact hi
    · -- the loop over ordering inputs
      intro s stack fs rd hfs hfuel
      cases fs with
      | nil => simp only [wantIns]; trivial
      | cons f fs =>
        simp only [wantIns]
        simp only [List.length_cons] at hfuel
        have hf := ihF s stack f (hfs f (by simp)) (by omega)
        have hm := (want_mono_all g s fuel).1 s stack f (Mono.refl s)
        split <;> rename_i hw <;> rw [hw] at hf hm
        · rename_i r s'
          have hpot : pot g s' stack ≤ pot g s stack := by
            unfold pot
            have := Nat.mul_le_mul_right (g.nFiles + 1) (unk_mono g hm)
            omega
          have := Nat.mul_le_mul_left (maxIns g + 3) hpot
          exact ihI s' stack fs _ (fun x hx => hfs x (by simp [hx])) (by omega)
        · trivial
        · exact hf
    · -- the loop over validation inputs
      intro s fs hfs hfuel
      cases fs with
      | nil => simp only [wantVals]; trivial
      | cons f fs =>
        simp only [wantVals]
        simp only [List.length_cons] at hfuel
        have hf := ihF s [] f (hfs f (by simp)) (by omega)
        have hm := (want_mono_all g s fuel).1 s [] f (Mono.refl s)
        split <;> rename_i hw <;> rw [hw] at hf hm
        · rename_i r s'
          have hpot : pot g s' [] ≤ pot g s [] := by
            unfold pot
            have := Nat.mul_le_mul_right (g.nFiles + 1) (unk_mono g hm)
            omega
          have := Nat.mul_le_mul_left (maxIns g + 3) hpot
          exact ihV s' fs (fun x hx => hfs x (by simp [hx])) (by omega)
        · trivial
        · exact hf

theorem pot_le (g : Graph) (s : S) : pot g s [] + 1 ≤ (g.nBuilds + 1) * (g.nFiles + 1) := by
  unfold pot
  have h1 : unk g s ≤ g.nBuilds := cnt_le _ _
  have h2 := offStack_le g []
  have := Nat.mul_le_mul_right (g.nFiles + 1) h1
  rw [Nat.add_mul]
  omega

/-- **`Work::want_file` terminates**: with the model's fuel the recursion never runs dry, for
    every graph with in-range cross references, every state and every file of the graph. -/
theorem want_never_out_of_fuel (g : Graph) (gok : GraphOK g) (fok : FilesOK g) (s : S) (f : Nat)
    (hf : f < g.nFiles) : FuelOK (want g s f) := by
  have hp := pot_le g s
  have hmul := Nat.mul_le_mul_left (maxIns g + 3) hp
  rw [Nat.mul_succ] at hmul
  have := (term_all g gok fok (wantFuel g)).1 s [] f hf (by unfold wantFuel; omega)
  unfold want
  split <;> rename_i hw <;> rw [hw] at this
  · trivial
  · trivial
  · exact this

end N2V.Sched

namespace N2V.Run
open N2V N2V.Sched

theorem wantAll_fuelOK (g : Graph) (gok : GraphOK g) (fok : FilesOK g) (fs : List Nat) (hfs : ∀ f ∈ fs, f < g.nFiles)
    (s : S) : FuelOK (wantAll g s fs) := by
  induction fs generalizing s with
  | nil => trivial
  | cons f fs ih =>
    unfold wantAll
    have hw := want_never_out_of_fuel g gok fok s f (hfs f (by simp))
    split
    · rename_i s' _; exact ih (fun x hx => hfs x (by simp [hx])) s'
    · rename_i r hne
      cases h : want g s f with
      | ok u s' => exact absurd h (hne u s')
      | err m s' => trivial
      | bad m => rw [h] at hw; exact hw

theorem lookup_lt (g : Graph) (n : Bytes) (t : Nat) (h : lookup g n = .ok (some t)) : t < g.nFiles := by
  unfold lookup at h
  split at h
  · simp only [Res.ok.injEq] at h
    have := List.mem_of_find?_eq_some h
    exact List.mem_range.mp this
  · cases h
  · cases h

theorem lookup_not_fuel (g : Graph) (n : Bytes) (m : String) (h : lookup g n = .panic m) : m ≠ "fuel" := by
  unfold lookup at h
  cases n with
  | nil =>
    simp only [Canon.canon] at h
    cases h; decide
  | cons c r =>
    rw [Canon.canon_spec (c :: r) (by simp)] at h
    cases h

theorem lookupM_lt (g : Graph) (a : Args) (n : Bytes) (t : Nat) (h : lookupM g a n = .ok (some t)) : t < g.nFiles := by
  unfold lookupM at h
  split at h
  · rename_i t' hl
    have := lookup_lt g n t' hl
    split at h
    · split at h
      · cases h; exact this
      · cases h
    · cases h; exact this
  · rename_i r hne
    exact lookup_lt g n t h

theorem lookupM_not_fuel (g : Graph) (a : Args) (n : Bytes) (m : String) (h : lookupM g a n = .panic m) : m ≠ "fuel" := by
  unfold lookupM at h
  split at h
  · split at h
    · split at h <;> cases h
    · cases h
  · exact lookup_not_fuel g n m h

/-- Every way `run::build` marks its targets — the manifest, named targets, defaults, or every
    file — terminates. -/
theorem wantTargets_fuelOK (g : Graph) (gok : GraphOK g) (fok : FilesOK g) (a : Args) (ns : List Bytes) (s : S) :
    FuelOK (wantTargets g a s ns) := by
  induction ns generalizing s with
  | nil => trivial
  | cons n ns ih =>
    unfold wantTargets
    split
    · split
      · exact ih s
      · trivial
    · rename_i t hl
      split
      · exact ih s
      · have hw := want_never_out_of_fuel g gok fok s t (lookupM_lt g a n t hl)
        split
        · rename_i s' _; exact ih s'
        · rename_i r hne
          cases h : want g s t with
          | ok u s' => exact absurd h (hne u s')
          | err m s' => trivial
          | bad m => rw [h] at hw; exact hw
    · rename_i m hl; exact lookupM_not_fuel g a n m hl
    · show "lookup" ≠ "fuel"; decide

end N2V.Run
