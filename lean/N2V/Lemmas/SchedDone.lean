/-
  Invariants that relate the environment to the set of `Done` builds, through `Work::run`.

  The scheduler only ever adds to the Done set the build whose check answered "clean" (or was
  adopted) or whose command just succeeded, and at that moment everything the build transitively
  depends on through ordering inputs is Done already.  So a joint invariant `J s e` of scheduler
  state and environment that (i) depends on `s` only through the Done set and (ii) is preserved
  by the environment operations under exactly those side conditions, holds whenever `Work::run`
  returns success.
-/
import N2V.Lemmas.SchedClean
namespace N2V.Sched

def DoneEq (s s' : S) : Prop := ∀ b, s'.st b = .done ↔ s.st b = .done
def DoneAdd (s s' : S) (id : Nat) : Prop := ∀ b, s'.st b = .done ↔ (b = id ∨ s.st b = .done)

theorem DoneEq.refl (s : S) : DoneEq s s := fun _ => Iff.rfl
theorem DoneEq.trans {a b c : S} (h1 : DoneEq a b) (h2 : DoneEq b c) : DoneEq a c :=
  fun x => (h2 x).trans (h1 x)
theorem DoneAdd.after {a b c : S} {id : Nat} (h1 : DoneAdd a b id) (h2 : DoneEq b c) : DoneAdd a c id :=
  fun x => (h2 x).trans (h1 x)
theorem DoneAdd.before {a b c : S} {id : Nat} (h1 : DoneEq a b) (h2 : DoneAdd b c id) : DoneAdd a c id :=
  fun x => (h2 x).trans (by rw [h1 x])

theorem set_doneEq {g : Graph} {s s' : S} {id : Nat} {new : St} (h : set g s id new = .ok s')
    (hn : new ≠ .done) (hid : s.st id ≠ .done) : DoneEq s s' := by
  obtain ⟨_, _, -, -, hst, -⟩ := set_spec h
  intro b
  rw [hst]
  unfold upd
  by_cases e : b = id
  · subst e; simp [hn, hid]
  · simp [e]

theorem set_doneAdd {g : Graph} {s s' : S} {id : Nat} (h : set g s id .done = .ok s') : DoneAdd s s' id := by
  obtain ⟨_, _, -, -, hst, -⟩ := set_spec h
  intro b
  rw [hst]
  unfold upd
  by_cases e : b = id
  · subst e; simp
  · simp [e]

theorem promote_doneEq {g : Graph} (l : List Nat) (s s' : S) (hw : ∀ d ∈ l, s.st d ≠ .done)
    (h : promote g s l = .ok s') : DoneEq s s' := by
  induction l generalizing s with
  | nil => simp [promote] at h; subst h; exact DoneEq.refl s
  | cons d ds ih =>
    unfold promote at h
    split at h
    · rename_i s1 hs
      obtain ⟨_, _, -, -, hst, -⟩ := set_spec hs
      refine (set_doneEq hs (by decide) (hw d (by simp))).trans (ih s1 ?_ h)
      intro x hx
      rw [hst]
      unfold upd
      by_cases e : x = d
      · simp [e]
      · simp [e]; exact hw x (by simp [hx])
    · rename_i hne; exact absurd h (hne s')

theorem readyDependents_doneAdd {g : Graph} {s s' : S} {id : Nat} {perm : List Nat}
    (h : readyDependents g s id perm = .ok s') : DoneAdd s s' id := by
  unfold readyDependents at h
  split at h
  · rename_i s1 hs
    refine (set_doneAdd hs).after (promote_doneEq _ s1 s' ?_ h)
    intro d hd
    have := (promotable_spec g s1 id d (mem_orderBy _ _ _ hd)).1
    rw [this]; simp
  · rename_i hne; exact absurd h (hne s')

theorem enqueueRun_doneEq {g : Graph} {s s1 : S} {id : Nat} (hid : s.st id ≠ .done)
    (h : enqueueRun g s id = .inl s1) : DoneEq s s1 := by
  unfold enqueueRun at h
  split at h
  · rename_i s2 hs
    split at h
    · cases h; exact (set_doneEq hs (by decide) hid).trans (fun _ => Iff.rfl)
    · cases h
  · rename_i r hne; exact absurd (resToRun_inl h) (hne s1)

theorem startLoop_doneEq {g : Graph} {par : Nat} (fuel : Nat) (s : S) (p : Bool) (inv : Inv g par s)
    (s' : S) (p' : Bool) (h : startLoop g par fuel s p = .inl (s', p')) : DoneEq s s' := by
  induction fuel generalizing s p with
  | zero => simp [startLoop] at h
  | succ fuel ih =>
    unfold startLoop at h
    split at h
    · rename_i hlt
      split at h
      · cases h; exact DoneEq.refl _
      · rename_i id pools hpop
        split at h
        · rename_i s1 hs
          obtain ⟨p0, q, hp0, hq, -, -⟩ := popQueued_spec _ _ _ inv.poolNames hpop
          have hstid := (inv.queuedSt p0 hp0 id (by simp [hq])).1
          have d1 : DoneEq { s with pools := pools } s1 :=
            set_doneEq (resToRun_inl hs) (by decide) (by show s.st id ≠ .done; rw [hstid]; simp)
          have d2 : DoneEq s { s1 with running := s1.running + 1, trace := Ev.start id :: s1.trace } := fun b => d1 b
          exact d2.trans (ih _ _ (start_inv inv hlt hpop (resToRun_inl hs)) h)
        · cases h
    · cases h; exact DoneEq.refl _

/-- What the environment operations must guarantee about a joint invariant `J`. -/
structure DoneSpec {E : Type} (g : Graph) (c : Choices E) (J : S → E → Prop) : Prop where
  ext : ∀ s s' e, DoneEq s s' → J s e → J s' e
  clean : ∀ s s' e b, J s e → s.st b ≠ .done → (∀ p, Anc g b p → s.st p = .done) →
    (c.check e b).1 = some false → DoneAdd s s' b → J s' (c.check e b).2
  dirty : ∀ s e b, J s e → s.st b ≠ .done → (∀ p, Anc g b p → s.st p = .done) →
    (c.check e b).1 = some true → J s (c.check e b).2
  adopt : ∀ s s' e b, J s e → s.st b ≠ .done → (∀ p, Anc g b p → s.st p = .done) →
    DoneAdd s s' b → J s' (c.onAdopt e b)
  success : ∀ s s' e b, J s e → s.st b ≠ .done → (∀ p, Anc g b p → s.st p = .done) →
    DoneAdd s s' b → J s' (c.onSuccess e b)

theorem readyLoop_done {E : Type} {g : Graph} {par : Nat} (c : Choices E) (J : S → E → Prop)
    (spec : DoneSpec g c J) (fuel : Nat) : ∀ (s : S) (e : E) (perms : List (List Nat)) (p : Bool),
    Inv g par s → J s e → ∀ s' e' perms' p', readyLoop g c fuel s e perms p = .inl (s', e', perms', p') →
    J s' e' := by
  induction fuel with
  | zero => intro s e perms p _ _ s' e' perms' p' h; simp [readyLoop] at h
  | succ fuel ih =>
    intro s e perms p inv j s' e' perms' p' h
    unfold readyLoop at h
    split at h
    · cases h; exact j
    · rename_i id rest hr
      have hstid : s.st id = .ready := inv.readySt id (by simp [hr])
      have hnd : s.st id ≠ .done := by rw [hstid]; simp
      have hanc : ∀ p, Anc g id p → s.st p = .done := fun p ha => inv.anc_done ha (Or.inl hstid)
      have d0 : DoneEq s { s with ready := rest } := fun _ => Iff.rfl
      simp only [] at h
      split at h
      · cases h
      · rename_i dirty e1 hc
        have hc1 : (c.check e id).1 = some dirty := by rw [hc]
        have hc2 : (c.check e id).2 = e1 := by rw [hc]
        split at h
        · -- clean
          rename_i hdirty
          have hd : dirty = false := by simpa using hdirty
          subst hd
          split at h
          · rename_i s1 hs
            have da : DoneAdd s s1 id := DoneAdd.before d0 (readyDependents_doneAdd (resToRun_inl hs))
            have j1 : J s1 e1 := by rw [← hc2]; exact spec.clean s s1 e id j hnd hanc hc1 da
            exact ih s1 e1 _ _ (clean_inv inv hr (resToRun_inl hs)) j1 _ _ _ _ h
          · cases h
        · rename_i hdirty
          have hd : dirty = true := by cases dirty <;> simp_all
          subst hd
          have j1 : J s e1 := by rw [← hc2]; exact spec.dirty s e id j hnd hanc hc1
          split at h
          · -- adopt
            split at h
            · rename_i s1 hs
              have da : DoneAdd s s1 id := DoneAdd.before d0 (readyDependents_doneAdd (resToRun_inl hs))
              exact ih s1 _ _ _ (clean_inv inv hr (resToRun_inl hs)) (spec.adopt s s1 e1 id j1 hnd hanc da) _ _ _ _ h
            · cases h
          · -- enqueue
            split at h
            · rename_i s1 hs
              have de : DoneEq s s1 := d0.trans (enqueueRun_doneEq (s := { s with ready := rest }) hnd hs)
              exact ih s1 e1 _ _ (enqueue_inv inv hr hs) (spec.ext s s1 e1 de j1) _ _ _ _ h
            · cases h

/-- **The joint invariant holds whenever `Work::run` returns success.** -/
theorem runLoop_done {E : Type} {g : Graph} {par : Nat} (c : Choices E) (J : S → E → Prop)
    (spec : DoneSpec g c J) (fuel : Nat) : ∀ (s : S) (e : E) (perms : List (List Nat)) (fin : List (Nat × Term)),
    Inv g par s → J s e → (runLoop g par c fuel s e perms fin).result = .ok true →
    J (runLoop g par c fuel s e perms fin).s (runLoop g par c fuel s e perms fin).e := by
  induction fuel with
  | zero => intro s e perms fin _ _ h; simp [runLoop] at h
  | succ fuel ih =>
    intro s e perms fin inv j h
    unfold runLoop at h ⊢
    by_cases hp : s.pending ≤ 0
    · simp only [hp, if_true]; exact j
    · simp only [hp, if_false] at h ⊢
      have inv0 : Inv g par { s with trace := Ev.update (countsList s.counts) :: s.trace } :=
        Inv.of_sameCore (s := s) ⟨rfl, rfl, rfl, rfl, rfl, rfl⟩ inv
      have j0 : J { s with trace := Ev.update (countsList s.counts) :: s.trace } e :=
        spec.ext s _ e (fun _ => Iff.rfl) j
      cases h1 : startLoop g par (g.nBuilds + 1) { s with trace := Ev.update (countsList s.counts) :: s.trace } false with
      | inr r =>
        obtain ⟨se, rr⟩ := r
        simp only [h1] at h
        exact absurd h1 (by rw [h]; exact startLoop_not_ok _ _ _ _ _ _ _)
      | inl r =>
        obtain ⟨s1, p1⟩ := r
        simp only [h1] at h ⊢
        have i1 := startLoop_inl_inv _ _ _ inv0 _ _ h1
        have j1 : J s1 e := spec.ext _ s1 e (startLoop_doneEq _ _ _ inv0 _ _ h1) j0
        cases h2 : readyLoop g c (g.nBuilds + 1) s1 e perms false with
        | inr r =>
          obtain ⟨se, e2, rr⟩ := r
          simp only [h2] at h
          exact absurd h2 (by rw [h]; exact readyLoop_not_ok _ _ _ _ _ _ _ _ _ _)
        | inl r =>
          obtain ⟨s2, e2, perms2, p2⟩ := r
          simp only [h2] at h ⊢
          have i2 := readyLoop_inl_inv c _ _ _ _ _ i1 _ _ _ _ h2
          have j2 : J s2 e2 := readyLoop_done c J spec _ s1 e perms false i1 j1 _ _ _ _ h2
          by_cases hpp : (p1 || p2) = true
          · simp only [hpp, if_true] at h ⊢; exact ih _ _ _ _ i2 j2 h
          · simp only [hpp, Bool.false_eq_true, if_false] at h ⊢
            by_cases hrun : s2.running ≤ 0
            · simp only [hrun, if_true] at h; split at h <;> simp at h
            · simp only [hrun, if_false] at h ⊢
              cases fin with
              | nil => simp at h
              | cons ft fin' =>
                obtain ⟨id, t⟩ := ft
                simp only at h ⊢
                by_cases hst : s2.st id ≠ .running
                · rw [if_pos hst] at h; simp at h
                · rw [if_neg hst] at h ⊢
                  have hst' : s2.st id = .running := by simpa using hst
                  have hnd : s2.st id ≠ .done := by rw [hst']; simp
                  have hanc : ∀ p, Anc g id p → s2.st p = .done :=
                    fun p ha => i2.anc_done ha (Or.inr (Or.inr (Or.inl hst')))
                  cases t with
                  | interrupted => simp at h
                  | failure =>
                    simp only at h ⊢
                    cases hfl : s2.failuresLeft with
                    | none =>
                      simp only [hfl] at h ⊢
                      generalize h4 : resToRun _ _ = r4 at h ⊢
                      cases r4 with
                      | inl s4 =>
                        simp only at h ⊢
                        have hs4 := resToRun_inl h4
                        have de : DoneEq s2 s4 := fun b => (set_doneEq hs4 (by decide) (by show s2.st id ≠ .done; exact hnd)) b
                        refine ih _ _ _ _ (failed_inv _ i2 hst' ?_ ?_ hs4) (spec.ext s2 s4 e2 de j2) h
                        · exact ⟨rfl, rfl, rfl, rfl, rfl⟩
                        · rfl
                      | inr r =>
                        obtain ⟨se, rr⟩ := r
                        simp only at h
                        exact absurd h4 (by rw [h]; exact resToRun_not_ok _ _ _ _)
                    | some n =>
                      simp only [hfl] at h ⊢
                      by_cases hn0 : n = 0
                      · rw [if_pos hn0] at h; simp at h
                      · rw [if_neg hn0] at h ⊢
                        by_cases hn1 : n - 1 = 0
                        · rw [if_pos hn1] at h; simp at h
                        · rw [if_neg hn1] at h ⊢
                          generalize h4 : resToRun _ _ = r4 at h ⊢
                          cases r4 with
                          | inl s4 =>
                            simp only at h ⊢
                            have hs4 := resToRun_inl h4
                            have de : DoneEq s2 s4 := fun b => (set_doneEq hs4 (by decide) (by show s2.st id ≠ .done; exact hnd)) b
                            refine ih _ _ _ _ (failed_inv _ i2 hst' ?_ ?_ hs4) (spec.ext s2 s4 e2 de j2) h
                            · exact ⟨rfl, rfl, rfl, rfl, rfl⟩
                            · rfl
                          | inr r =>
                            obtain ⟨se, rr⟩ := r
                            simp only at h
                            exact absurd h4 (by rw [h]; exact resToRun_not_ok _ _ _ _)
                  | success =>
                    simp only at h ⊢
                    generalize h4 : resToRun _ _ = r4 at h ⊢
                    cases r4 with
                    | inl s4 =>
                      simp only at h ⊢
                      have hs4 := resToRun_inl h4
                      have da : DoneAdd s2 s4 id := fun b => (readyDependents_doneAdd hs4) b
                      refine ih _ _ _ _ (succeeded_inv _ i2 hst' ?_ ?_ hs4) (spec.success s2 s4 e2 id j2 hnd hanc da) h
                      · exact ⟨rfl, rfl, rfl, rfl, rfl⟩
                      · rfl
                    | inr r =>
                      obtain ⟨se, rr⟩ := r
                      simp only at h
                      exact absurd h4 (by rw [h]; exact resToRun_not_ok _ _ _ _)

end N2V.Sched

namespace N2V.Run
open N2V N2V.Sched

theorem WRel.doneEq {g : Graph} {par : Nat} {s s' : S} (r : WRel g par s s') : DoneEq s s' := by
  intro b
  by_cases hu : s.st b = .unknown
  · constructor
    · intro h; rcases r.mono b hu with h' | h' | h' <;> rw [h'] at h <;> cases h
    · intro h; rw [hu] at h; cases h
  · rw [r.frame b hu]

/-- The joint invariant at the end of a successful `run::build` (no reload). -/
theorem build_done {E : Type} {g : Graph} (gok : GraphOK g) (a : Args) (c : Choices E) (J : S → E → Prop)
    (spec : DoneSpec g c J) (e : E) (hj : J (fresh a) e) (n : Nat)
    (h : (build g a c e).2.2 = .done n) : J (build g a c e).1 (build g a c e).2.1 := by
  revert h
  unfold build
  simp only []
  have hrel := want_rel gok (fresh a) a.manifest (fresh_inv g a)
  cases hwm : want g (fresh a) a.manifest with
  | ok u s1 =>
    rw [hwm] at hrel
    simp only []
    have j1 : J s1 e := spec.ext _ s1 e (WRel.doneEq hrel) hj
    cases hres : (runLoop g a.par c (runFuel g) s1 e c.perms c.finishes).result with
    | ok bb =>
      cases bb with
      | true =>
        simp only []
        have i2 := runLoop_inv c (runFuel g) s1 e c.perms c.finishes hrel.inv hres
        have j2 := runLoop_done c J spec (runFuel g) s1 e c.perms c.finishes hrel.inv j1 hres
        split
        · intro h; cases h
        · -- phase 2
          unfold phase2
          simp only []
          have hw : WRRel g a.par (runLoop g a.par c (runFuel g) s1 e c.perms c.finishes).s
              (if !a.targets.isEmpty then wantTargets g a (runLoop g a.par c (runFuel g) s1 e c.perms c.finishes).s a.targets
               else if !a.defaults.isEmpty then wantAll g (runLoop g a.par c (runFuel g) s1 e c.perms c.finishes).s a.defaults
               else wantAll g (runLoop g a.par c (runFuel g) s1 e c.perms c.finishes).s ((List.range g.nFiles).filter (· ≠ a.manifest))) := by
            split
            · exact wantTargets_rel a gok _ _ _ (WRel.refl i2)
            · split
              · exact wantAll_rel gok _ _ _ (WRel.refl i2)
              · exact wantAll_rel gok _ _ _ (WRel.refl i2)
          generalize (if !a.targets.isEmpty then wantTargets g a (runLoop g a.par c (runFuel g) s1 e c.perms c.finishes).s a.targets
               else if !a.defaults.isEmpty then wantAll g (runLoop g a.par c (runFuel g) s1 e c.perms c.finishes).s a.defaults
               else wantAll g (runLoop g a.par c (runFuel g) s1 e c.perms c.finishes).s ((List.range g.nFiles).filter (· ≠ a.manifest))) = w at hw ⊢
          cases w with
          | ok u3 s3 =>
            simp only []
            have j3 : J s3 (runLoop g a.par c (runFuel g) s1 e c.perms c.finishes).e :=
              spec.ext _ s3 _ (WRel.doneEq hw) j2
            cases hres2 : (runLoop g a.par c (runFuel g) s3 (runLoop g a.par c (runFuel g) s1 e c.perms c.finishes).e
                (runLoop g a.par c (runFuel g) s1 e c.perms c.finishes).perms
                (runLoop g a.par c (runFuel g) s1 e c.perms c.finishes).finishes).result with
            | ok bb2 =>
              cases bb2 with
              | true =>
                simp only []
                intro _
                exact runLoop_done c J spec (runFuel g) s3 _ _ _ hw.inv j3 hres2
              | false => simp only [ofRun]; intro h; cases h
            | _ => simp only [ofRun]; intro h; cases h
          | err m s3 => simp only []; intro h; cases h
          | bad m => simp only []; intro h; cases h
      | false => simp only [ofRun]; intro h; cases h
    | _ => simp only [ofRun]; intro h; cases h
  | err m s1 => simp only []; intro h; cases h
  | bad m => simp only []; intro h; cases h

end N2V.Run
