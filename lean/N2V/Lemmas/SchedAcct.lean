/-
  Accounting: `tasks_run`, `tasks_failed` and the `-k` budget against the start/finish events
  of the trace.  Gives C19's final `ran N tasks` and C05's budget / exit-status clauses.
-/
import N2V.Lemmas.SchedWantInv
namespace N2V.Sched

theorem promote_frm {g : Graph} (l : List Nat) (s s' : S) (h : promote g s l = .ok s') : Frame s s' := by
  induction l generalizing s with
  | nil => simp [promote] at h; rw [← h]; exact Frame.refl s
  | cons d ds ih =>
    unfold promote at h
    split at h
    · rename_i s1 hs; exact (set_frm hs).trans (ih s1 h)
    · rename_i hne; exact absurd h (hne s')

theorem readyDependents_frm {g : Graph} {s s' : S} {id : Nat} {perm : List Nat}
    (h : readyDependents g s id perm = .ok s') : Frame s s' := by
  unfold readyDependents at h
  split at h
  · rename_i s1 hs; exact (set_frm hs).trans (promote_frm _ s1 s' h)
  · rename_i hne; exact absurd h (hne s')

theorem enqueueRun_frm {g : Graph} {s : S} {id : Nat} :
    match enqueueRun g s id with
    | .inl s1 => Frame s s1
    | .inr (se, _) => Frame s se := by
  cases hres : enqueueRun g s id with
  | inl s1 =>
    simp only []
    unfold enqueueRun at hres
    split at hres
    · rename_i s2 hs
      split at hres
      · cases hres; exact (set_frm hs).trans ⟨rfl, rfl, rfl, rfl⟩
      · cases hres
    · rename_i r hne; exact absurd (resToRun_inl hres) (hne s1)
  | inr x =>
    obtain ⟨se, rr⟩ := x
    simp only []
    unfold enqueueRun at hres
    split at hres
    · rename_i s2 hs
      split at hres
      · cases hres
      · cases hres; exact set_frm hs
    · rw [resToRun_inr hres]; exact Frame.refl s

theorem readyLoop_frm {E : Type} {g : Graph} (c : Choices E) (fuel : Nat) (s : S) (e : E)
    (perms : List (List Nat)) (p : Bool) :
    match readyLoop g c fuel s e perms p with
    | .inl (s', _, _, _) => Frame s s'
    | .inr (se, _, _) => Frame s se := by
  induction fuel generalizing s e perms p with
  | zero => simp only [readyLoop]; exact Frame.refl s
  | succ fuel ih =>
    have f0 : ∀ rest, Frame s { s with ready := rest } := fun _ => ⟨rfl, rfl, rfl, rfl⟩
    have lift : ∀ (s1 : S) e1 perms1 p1, Frame s s1 →
        (match readyLoop g c fuel s1 e1 perms1 p1 with
          | .inl (s', _, _, _) => Frame s s'
          | .inr (se, _, _) => Frame s se) := by
      intro s1 e1 perms1 p1 f1
      have := ih s1 e1 perms1 p1
      cases hr : readyLoop g c fuel s1 e1 perms1 p1 with
      | inl x => obtain ⟨a, b, c', d⟩ := x; rw [hr] at this; exact f1.trans this
      | inr x => obtain ⟨a, b, c'⟩ := x; rw [hr] at this; exact f1.trans this
    cases hres : readyLoop g c (fuel + 1) s e perms p with
    | inl x =>
      obtain ⟨s', e', perms', p'⟩ := x
      simp only []
      unfold readyLoop at hres
      split at hres
      · cases hres; exact Frame.refl s
      · rename_i id rest hr
        simp only [] at hres
        split at hres
        · cases hres
        · rename_i dirty e1 hc
          split at hres
          · split at hres
            · rename_i s1 hs
              have := lift s1 e1 perms.tail true ((f0 rest).trans (readyDependents_frm (resToRun_inl hs)))
              rw [hres] at this; exact this
            · cases hres
          · split at hres
            · split at hres
              · rename_i s1 hs
                have := lift s1 (c.onAdopt e1 id) perms.tail true ((f0 rest).trans (readyDependents_frm (resToRun_inl hs)))
                rw [hres] at this; exact this
              · cases hres
            · split at hres
              · rename_i s1 hs
                have hq := @enqueueRun_frm g { s with ready := rest } id
                rw [hs] at hq
                have := lift s1 e1 perms true ((f0 rest).trans hq)
                rw [hres] at this; exact this
              · cases hres
    | inr x =>
      obtain ⟨se, e', r⟩ := x
      simp only []
      unfold readyLoop at hres
      split at hres
      · cases hres
      · rename_i id rest hr
        simp only [] at hres
        split at hres
        · cases hres; exact f0 rest
        · rename_i dirty e1 hc
          split at hres
          · split at hres
            · rename_i s1 hs
              have := lift s1 e1 perms.tail true ((f0 rest).trans (readyDependents_frm (resToRun_inl hs)))
              rw [hres] at this; exact this
            · rename_i se' r' hs
              cases hres
              rw [resToRun_inr hs]; exact f0 rest
          · split at hres
            · split at hres
              · rename_i s1 hs
                have := lift s1 (c.onAdopt e1 id) perms.tail true ((f0 rest).trans (readyDependents_frm (resToRun_inl hs)))
                rw [hres] at this; exact this
              · rename_i se' r' hs
                cases hres
                rw [resToRun_inr hs]; exact f0 rest
            · have hq := @enqueueRun_frm g { s with ready := rest } id
              split at hres
              · rename_i s1 hs
                rw [hs] at hq
                have := lift s1 e1 perms true ((f0 rest).trans hq)
                rw [hres] at this; exact this
              · rename_i se' r' hs
                rw [hs] at hq
                cases hres
                exact (f0 rest).trans hq

/-- The accounting invariant (at the head of each iteration of `Work::run`). -/
structure AInv (k : Option Nat) (s : S) : Prop where
  run : s.tasksRun = succs (sf s.trace)
  failed : s.tasksFailed = fails (sf s.trace)
  left : match k with
    | none => s.failuresLeft = none
    | some k0 => s.failuresLeft = some (k0 - fails (sf s.trace)) ∧ fails (sf s.trace) < k0
  nointr : intr (sf s.trace) = false
  bt : bT k (sf s.trace) = true

theorem AInv.of_frame {k : Option Nat} {s s' : S} (a : AInv k s) (f : Frame s s') : AInv k s' := by
  refine ⟨by rw [f.tasksRun, f.sf]; exact a.run, by rw [f.tasksFailed, f.sf]; exact a.failed, ?_,
          by rw [f.sf]; exact a.nointr, by rw [f.sf]; exact a.bt⟩
  have := a.left
  cases k with
  | none => simp only [] at this ⊢; rw [f.failuresLeft]; exact this
  | some k0 => simp only [] at this ⊢; rw [f.failuresLeft, f.sf]; exact this

theorem AInv.budgetOk {k : Option Nat} {s : S} (a : AInv k s) : budgetOk k (sf s.trace) = true := by
  unfold Sched.budgetOk
  rw [a.nointr]
  have := a.left
  cases k with
  | none => rfl
  | some k0 => simp only [] at this ⊢; simp [this.2]

/-- Starting a command keeps the accounting and respects the budget. -/
theorem start_ainv {g : Graph} {k : Option Nat} {s s1 : S} {id : Nat} {pools : List Pool} (a : AInv k s)
    (h : set g { s with pools := pools } id .running = .ok s1) :
    AInv k { s1 with running := s1.running + 1, trace := Ev.start id :: s1.trace } := by
  have a1 : AInv k s1 := a.of_frame ((⟨rfl, rfl, rfl, rfl⟩ : Frame s { s with pools := pools }).trans (set_frm h))
  refine ⟨a1.run, a1.failed, ?_, a1.nointr, ?_⟩
  · have := a1.left
    cases k with
    | none => exact this
    | some k0 => exact this
  · show (budgetOk k (sf s1.trace) && bT k (sf s1.trace)) = true
    rw [a1.budgetOk, a1.bt]; rfl

theorem startLoop_ainv {g : Graph} {par : Nat} {k : Option Nat} (fuel : Nat) (s : S) (p : Bool) (a : AInv k s) :
    match startLoop g par fuel s p with
    | .inl (s', _) => AInv k s'
    | .inr (se, _) => AInv k se := by
  induction fuel generalizing s p with
  | zero => simp only [startLoop]; exact a
  | succ fuel ih =>
    cases hres : startLoop g par (fuel + 1) s p with
    | inl x =>
      obtain ⟨s', p'⟩ := x
      simp only []
      unfold startLoop at hres
      split at hres
      · split at hres
        · cases hres; exact a
        · rename_i id pools hpop
          split at hres
          · rename_i s1 hs
            have := ih _ true (start_ainv a (resToRun_inl hs))
            rw [hres] at this; exact this
          · cases hres
      · cases hres; exact a
    | inr x =>
      obtain ⟨se, r⟩ := x
      simp only []
      unfold startLoop at hres
      split at hres
      · split at hres
        · cases hres
        · rename_i id pools hpop
          split at hres
          · rename_i s1 hs
            have := ih _ true (start_ainv a (resToRun_inl hs))
            rw [hres] at this; exact this
          · rename_i r' hr
            cases hres
            rw [resToRun_inr hr]; exact a
      · cases hres

theorem fail_ainv {k : Option Nat} {s2 : S} (a : AInv k s2) (id : Nat) (fl' : Option Nat)
    (hfl : match k with
      | none => fl' = none
      | some k0 => fl' = some (k0 - (fails (sf s2.trace) + 1)) ∧ fails (sf s2.trace) + 1 < k0) :
    AInv k { s2 with running := s2.running - 1, trace := Ev.finish id .failure :: s2.trace,
                     failuresLeft := fl', tasksFailed := s2.tasksFailed + 1 } := by
  refine ⟨a.run, ?_, ?_, a.nointr, a.bt⟩
  · show s2.tasksFailed + 1 = fails (sf s2.trace) + 1
    rw [a.failed]
  · cases k with
    | none => exact hfl
    | some k0 => exact hfl

theorem succ_ainv {k : Option Nat} {s2 : S} (a : AInv k s2) (id : Nat) :
    AInv k { s2 with running := s2.running - 1, trace := Ev.finish id .success :: s2.trace,
                     tasksRun := s2.tasksRun + 1 } := by
  refine ⟨?_, a.failed, ?_, a.nointr, a.bt⟩
  · show s2.tasksRun + 1 = succs (sf s2.trace) + 1
    rw [a.run]
  · have := a.left
    cases k with
    | none => exact this
    | some k0 => exact this

/-- **Accounting along `Work::run`**: every `start` in the trace respected the `-k` budget and
    came before any interruption (any exit); and when the loop reports success, `tasks_run` is the
    number of successful commands, `tasks_failed` the number of failed ones. -/
theorem runLoop_acct {E : Type} {g : Graph} {par : Nat} {k : Option Nat} (c : Choices E)
    (fuel : Nat) (s : S) (e : E) (perms : List (List Nat)) (fin : List (Nat × Term)) (a : AInv k s) :
    bT k (sf (runLoop g par c fuel s e perms fin).s.trace) = true ∧
    ((runLoop g par c fuel s e perms fin).result = .ok true → AInv k (runLoop g par c fuel s e perms fin).s) := by
  induction fuel generalizing s e perms fin with
  | zero => simp only [runLoop]; exact ⟨a.bt, fun h => by cases h⟩
  | succ fuel ih =>
    unfold runLoop
    by_cases hp : s.pending ≤ 0
    · simp only [hp, if_true]; exact ⟨a.bt, fun _ => a⟩
    · simp only [hp, if_false]
      have a0 : AInv k { s with trace := Ev.update (countsList s.counts) :: s.trace } :=
        a.of_frame ⟨rfl, rfl, rfl, rfl⟩
      have hs1 := startLoop_ainv (g := g) (par := par) (g.nBuilds + 1) _ false a0
      cases h1 : startLoop g par (g.nBuilds + 1) { s with trace := Ev.update (countsList s.counts) :: s.trace } false with
      | inr r =>
        obtain ⟨se, rr⟩ := r
        rw [h1] at hs1
        simp only []
        exact ⟨hs1.bt, fun h => absurd h1 (by rw [h]; exact startLoop_not_ok _ _ _ _ _ _ _)⟩
      | inl r =>
        obtain ⟨s1, p1⟩ := r
        rw [h1] at hs1
        simp only []
        have hf2 := readyLoop_frm (g := g) c (g.nBuilds + 1) s1 e perms false
        cases h2 : readyLoop g c (g.nBuilds + 1) s1 e perms false with
        | inr r =>
          obtain ⟨se, e2, rr⟩ := r
          rw [h2] at hf2
          simp only []
          exact ⟨(hs1.of_frame hf2).bt, fun h => absurd h2 (by rw [h]; exact readyLoop_not_ok _ _ _ _ _ _ _ _ _ _)⟩
        | inl r =>
          obtain ⟨s2, e2, perms2, p2⟩ := r
          rw [h2] at hf2
          simp only []
          have a2 : AInv k s2 := hs1.of_frame hf2
          by_cases hpp : (p1 || p2) = true
          · simp only [hpp, if_true]; exact ih _ _ _ _ a2
          · simp only [hpp, Bool.false_eq_true, if_false]
            by_cases hrun : s2.running ≤ 0
            · simp only [hrun, if_true]; split <;> exact ⟨a2.bt, fun h => by cases h⟩
            · simp only [hrun, if_false]
              cases fin with
              | nil => exact ⟨a2.bt, fun h => by cases h⟩
              | cons ft fin' =>
                obtain ⟨id, t⟩ := ft
                simp only []
                by_cases hst : s2.st id ≠ .running
                · rw [if_pos hst]; exact ⟨a2.bt, fun h => by cases h⟩
                · rw [if_neg hst]
                  cases t with
                  | interrupted => exact ⟨a2.bt, fun h => by cases h⟩
                  | success =>
                    simp only []
                    generalize h4 : resToRun _ _ = r4
                    cases r4 with
                    | inl s4 =>
                      simp only []
                      refine ih _ _ _ _ (AInv.of_frame ?_ (readyDependents_frm (resToRun_inl h4)))
                      exact succ_ainv a2 id
                    | inr r =>
                      obtain ⟨se, rr⟩ := r
                      simp only []
                      refine ⟨?_, fun h => absurd h4 (by rw [h]; exact resToRun_not_ok _ _ _ _)⟩
                      rw [resToRun_inr h4]; exact a2.bt
                  | failure =>
                    simp only []
                    have hleft := a2.left
                    cases hfl : s2.failuresLeft with
                    | none =>
                      simp only []
                      generalize h4 : resToRun _ _ = r4
                      cases r4 with
                      | inl s4 =>
                        simp only []
                        refine ih _ _ _ _ (AInv.of_frame ?_ (set_frm (resToRun_inl h4)))
                        refine fail_ainv a2 id none ?_
                        cases k with
                        | none => rfl
                        | some k0 => simp only [] at hleft; rw [hfl] at hleft; cases hleft.1
                      | inr r =>
                        obtain ⟨se, rr⟩ := r
                        simp only []
                        refine ⟨?_, fun h => absurd h4 (by rw [h]; exact resToRun_not_ok _ _ _ _)⟩
                        rw [resToRun_inr h4]; exact a2.bt
                    | some n =>
                      simp only []
                      by_cases hn0 : n = 0
                      · rw [if_pos hn0]; exact ⟨a2.bt, fun h => by cases h⟩
                      · rw [if_neg hn0]
                        by_cases hn1 : n - 1 = 0
                        · rw [if_pos hn1]; exact ⟨a2.bt, fun h => by cases h⟩
                        · rw [if_neg hn1]
                          generalize h4 : resToRun _ _ = r4
                          cases r4 with
                          | inl s4 =>
                            simp only []
                            refine ih _ _ _ _ (AInv.of_frame ?_ (set_frm (resToRun_inl h4)))
                            refine fail_ainv a2 id (some (n - 1)) ?_
                            cases k with
                            | none => simp only [] at hleft; rw [hfl] at hleft; cases hleft
                            | some k0 =>
                              simp only [] at hleft ⊢
                              rw [hfl] at hleft
                              have hn : n = k0 - fails (sf s2.trace) := by
                                have := hleft.1; simpa using this
                              refine ⟨by congr 1; omega, by omega⟩
                          | inr r =>
                            obtain ⟨se, rr⟩ := r
                            simp only []
                            refine ⟨?_, fun h => absurd h4 (by rw [h]; exact resToRun_not_ok _ _ _ _)⟩
                            rw [resToRun_inr h4]; exact a2.bt

theorem bT_start_suffix {k : Option Nat} {tr : List Ev} (h : bT k tr = true) {b : Nat} {tr' : List Ev}
    (hs : (.start b :: tr') <:+ tr) : budgetOk k tr' = true := by
  obtain ⟨t, rfl⟩ := hs
  induction t with
  | nil => simp only [List.nil_append, bT, Bool.and_eq_true] at h; exact h.1
  | cons e t ih =>
    apply ih
    cases e <;> simp only [List.cons_append, bT, Bool.and_eq_true] at h <;> first | exact h.2 | exact h

theorem sf_suffix {tr tr' : List Ev} (hs : tr' <:+ tr) : sf tr' <:+ sf tr := by
  obtain ⟨t, rfl⟩ := hs
  induction t with
  | nil => exact List.suffix_refl _
  | cons e t ih =>
    cases e <;> simp only [List.cons_append, sf] <;> first | exact ih | exact List.IsSuffix.trans ih (List.suffix_cons _ _)

theorem sf_start (b : Nat) (tr : List Ev) : sf (.start b :: tr) = .start b :: sf tr := rfl


end N2V.Sched
