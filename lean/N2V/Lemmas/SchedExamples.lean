/-
  Small concrete runs used as non-vacuity witnesses by Props/* (everything here is evaluated by
  the kernel with `decide`).
-/
import N2V.Lemmas.SchedBuild
import N2V.Lemmas.TraceFacts
namespace N2V.Ex
open N2V N2V.Sched

/-- `build b: r` ; `build c: r b` (files: 0 = the manifest, 1 = b, 2 = c). -/
def g0 : Graph := Graph.mk 2 3
  (fun b => if b = 0 then ⟨[], [], [1], false, []⟩ else if b = 1 then ⟨[1], [], [2], false, []⟩ else ⟨[], [], [], true, []⟩)
  (fun f => if f = 1 then some 0 else if f = 2 then some 1 else none)
  (fun f => if f = 1 then [1] else [])
  (fun f => [97 + f.toUInt8])

theorem g0_ok : GraphOK g0 := by
  intro f p h
  unfold g0 at h ⊢
  simp only at h ⊢
  split at h
  · cases h; decide
  · split at h
    · cases h; decide
    · cases h

def a0 : Run.Args := Run.Args.mk 2 (some 1) false 0 [] [] [] none

/-- The same with `-k 0` (keep going without limit). -/
def a1 : Run.Args := Run.Args.mk 2 none false 0 [] [] [] none

/-- Everything dirty, both commands succeed. -/
def c0 : Choices Unit := Choices.mk (fun e _ => (some true, e)) (fun e _ => e) (fun e _ => e)
  false [[1], []] [(0, .success), (1, .success)]

/-- The first command fails. -/
def c1 : Choices Unit := Choices.mk (fun e _ => (some true, e)) (fun e _ => e) (fun e _ => e)
  false [] [(0, .failure)]

example : (Run.build g0 a0 c0 ()).2.2 = .done 2 := by decide
example : (Run.build g0 a0 c1 ()).2.2 = .failed := by decide

end N2V.Ex
