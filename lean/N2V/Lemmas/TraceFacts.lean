/-
  What follows from the trace specification alone (no model): reasoning about ANY trace that
  passes `okTrace` — the model's (Lemmas/SchedTrace proves they all pass) or one recorded from
  the real n2 (the `traceSpec` monitor decides it).
-/
import N2V.TraceSpec
import N2V.Lemmas.SchedRun
namespace N2V.Sched

variable {g : Graph} {par : Nat} {sh : List (Bytes × Nat)}

theorem okTrace_cons {e : Ev} {tr : List Ev} :
    okTrace g par sh (e :: tr) = true ↔ okEv g par sh tr e = true ∧ okTrace g par sh tr = true := by
  simp [okTrace]

/-- Every prefix (in time) of a good trace is good. -/
theorem okTrace_suffix {tr tr' : List Ev} (h : okTrace g par sh tr = true) (hs : tr' <:+ tr) :
    okTrace g par sh tr' = true := by
  obtain ⟨t, rfl⟩ := hs
  induction t with
  | nil => exact h
  | cons e t ih => exact ih (okTrace_cons.mp h).2

/-- ... and every event in it was justified when it happened. -/
theorem okEv_of_suffix {tr tr' : List Ev} {e : Ev} (h : okTrace g par sh tr = true) (hs : (e :: tr') <:+ tr) :
    okEv g par sh tr' e = true := (okTrace_cons.mp (okTrace_suffix h hs)).1

theorem okEv_set {tr : List Ev} {id : Nat} {prev new : St} {cs : List Int} {pend : Int}
    (h : okEv g par sh tr (.set id prev new cs pend) = true) :
    id < g.nBuilds ∧ prev = stOf tr id ∧ legal prev new = true ∧
    cs = exactCounts g (upd (stOf tr) id new) ∧
    pend = (cnt g.nBuilds (fun b => active (upd (stOf tr) id new b)) : Int) ∧
    (new = .ready → directDone g (stOf tr) id = true) ∧
    (new = .running → withinLimits g par sh (upd (stOf tr) id new) = true) := by
  simp only [okEv, Bool.and_eq_true, decide_eq_true_eq, beq_iff_eq, Bool.or_eq_true, bne_iff_ne] at h
  obtain ⟨⟨⟨⟨⟨⟨h1, h2⟩, h3⟩, h4⟩, h5⟩, h6⟩, h7⟩ := h
  exact ⟨h1, h2, h3, h4, h5, fun e => h6.resolve_left (fun n => n e), fun e => h7.resolve_left (fun n => n e)⟩

theorem legal_src {a b : St} (h : legal a b = true) : a ≠ .done ∧ a ≠ .failed := by
  cases a <;> cases b <;> simp [legal] at h ⊢

theorem legal_dst {a b : St} (h : legal a b = true) : b ≠ .unknown := by
  cases a <;> cases b <;> simp [legal] at h ⊢

theorem legal_gated {a b : St} (h : legal a b = true) (hg : gated b) : b = .ready ∨ gated a := by
  cases a <;> cases b <;> simp [legal, gated] at h hg ⊢

theorem legal_from_late {a b : St} (h : legal a b = true) (ha : a = .running ∨ a = .done ∨ a = .failed) :
    b = .done ∨ b = .failed := by
  cases a <;> cases b <;> simp [legal] at h ha ⊢

/-- **Finished is final**: after a justified `set`, every build that was `Done` (`Failed`) still is. -/
theorem set_keeps_finished {tr : List Ev} {id : Nat} {prev new : St} {cs : List Int} {pend : Int}
    (h : okEv g par sh tr (.set id prev new cs pend) = true) (b : Nat) (x : St) (hx : x = .done ∨ x = .failed)
    (hb : stOf tr b = x) : stOf (.set id prev new cs pend :: tr) b = x := by
  obtain ⟨_, h2, h3, -⟩ := okEv_set h
  simp only [stOf]
  by_cases e : b = id
  · subst e
    have := legal_src h3
    rw [h2, hb] at this
    rcases hx with rfl | rfl <;> simp at this
  · rw [upd_other _ _ _ _ e]; exact hb

/-- Within one `Work` (no reload in between) finished builds stay finished: the `done` and
    `failed` counts n2 shows never decrease. -/
theorem finished_monotone {tr1 tr2 : List Ev} (h : okTrace g par sh (tr2 ++ tr1) = true)
    (hl : Ev.load ∉ tr2) (b : Nat) (x : St) (hx : x = .done ∨ x = .failed) (hb : stOf tr1 b = x) :
    stOf (tr2 ++ tr1) b = x := by
  induction tr2 with
  | nil => exact hb
  | cons e t ih =>
    have h' := okTrace_cons.mp h
    have ih' := ih h'.2 (fun m => hl (by simp [m]))
    cases e with
    | set id prev new cs pend => exact set_keeps_finished h'.1 b x hx ih'
    | load => simp at hl
    | update cs => exact ih'
    | start b' => exact ih'
    | finish b' t' => exact ih'

theorem directDone_iff {st : Nat → St} {b : Nat} :
    directDone g st b = true ↔ ∀ f ∈ (g.build b).ordering, ∀ p, g.producer f = some p → st p = .done := by
  unfold directDone
  rw [List.all_eq_true]
  constructor
  · intro h f hf p hp
    have := h f hf
    simp [hp] at this
    exact this
  · intro h f hf
    cases hp : g.producer f with
    | none => rfl
    | some p => simp [h f hf p hp]

/-- **The gate**: in every state a good trace passes through, a build that is `Ready`, `Queued`,
    `Running`, `Done` or `Failed` has every producer of its ordering inputs `Done`. -/
theorem gate_invariant {tr : List Ev} (h : okTrace g par sh tr = true) (b : Nat) (hg : gated (stOf tr b)) :
    directDone g (stOf tr) b = true := by
  induction tr generalizing b with
  | nil => simp [stOf, gated] at hg
  | cons e t ih =>
    have h' := okTrace_cons.mp h
    cases e with
    | load => simp [stOf, gated] at hg
    | update cs => exact ih h'.2 b hg
    | start b' => exact ih h'.2 b hg
    | finish b' t' => exact ih h'.2 b hg
    | set id prev new cs pend =>
      obtain ⟨_, h2, h3, -, -, h6, -⟩ := okEv_set h'.1
      have keep : ∀ p, stOf t p = .done → stOf (.set id prev new cs pend :: t) p = .done :=
        fun p hp => set_keeps_finished h'.1 p .done (Or.inl rfl) hp
      have transfer : directDone g (stOf t) b = true →
          directDone g (stOf (.set id prev new cs pend :: t)) b = true := by
        intro hd
        rw [directDone_iff] at hd ⊢
        intro f hf p hp
        exact keep p (hd f hf p hp)
      apply transfer
      simp only [stOf] at hg
      by_cases e : b = id
      · subst e
        simp at hg
        rcases legal_gated h3 hg with hr | hgp
        · exact h6 hr
        · exact ih h'.2 b (by rw [← h2]; exact hgp)
      · rw [upd_other _ _ _ _ e] at hg
        exact ih h'.2 b hg

/-- `p` (transitively) produces an ordering input of `b`. -/
inductive Anc (g : Graph) : Nat → Nat → Prop where
  | direct {b p f} : f ∈ (g.build b).ordering → g.producer f = some p → Anc g b p
  | step {b q p} : Anc g b q → Anc g q p → Anc g b p

/-- In every state of a good trace, everything a gated build transitively depends on is `Done`. -/
theorem ancestors_done {tr : List Ev} (h : okTrace g par sh tr = true) {b p : Nat} (ha : Anc g b p)
    (hg : gated (stOf tr b)) : stOf tr p = .done := by
  induction ha with
  | direct hf hp => exact directDone_iff.mp (gate_invariant h _ hg) _ hf _ hp
  | step _ _ ih1 ih2 =>
    have hq := ih1 hg
    exact ih2 (by rw [hq]; simp [gated])

theorem okEv_start {tr : List Ev} {b : Nat} (h : okEv g par sh tr (.start b) = true) :
    (∃ cs pend tr', tr = .set b .queued .running cs pend :: tr') ∧
    withinLimits g par sh (stOf tr) = true ∧
    (∃ nd ∈ sh, nd.1 = (g.build b).pool) ∧ directDone g (stOf tr) b = true := by
  simp only [okEv, Bool.and_eq_true, List.any_eq_true, beq_iff_eq] at h
  obtain ⟨⟨⟨h1, h2⟩, h3⟩, h4⟩ := h
  refine ⟨?_, h2, h3, h4⟩
  split at h1
  · rename_i b' cs pend tl
    have : b' = b := by simpa using h1
    subst this
    exact ⟨cs, pend, tl, rfl⟩
  · cases h1

/-- **C01, ordering**: when a command starts, every step that transitively produces one of its
    explicit, implicit or order-only inputs is `Done` (ran successfully or was judged up to
    date) — and none of them failed (C05, containment). -/
theorem start_after_all_deps {tr : List Ev} {b : Nat} (h : okTrace g par sh (.start b :: tr) = true)
    {p : Nat} (ha : Anc g b p) : stOf tr p = .done ∧ stOf tr p ≠ .failed := by
  have h' := okTrace_cons.mp h
  obtain ⟨⟨cs, pend, tl, rfl⟩, -⟩ := okEv_start h'.1
  have hg : gated (stOf (.set b .queued .running cs pend :: tl) b) := by simp [stOf, gated]
  have := ancestors_done h'.2 ha hg
  exact ⟨this, by rw [this]; simp⟩

/-- Was a command for `b` started since the last (re)load? -/
def startedSince : List Ev → Nat → Bool
  | [], _ => false
  | .load :: _, _ => false
  | .start b' :: tr, b => b' == b || startedSince tr b
  | _ :: tr, b => startedSince tr b

theorem started_is_late {tr : List Ev} (h : okTrace g par sh tr = true) (b : Nat)
    (hs : startedSince tr b = true) :
    stOf tr b = .running ∨ stOf tr b = .done ∨ stOf tr b = .failed := by
  induction tr with
  | nil => simp [startedSince] at hs
  | cons e t ih =>
    have h' := okTrace_cons.mp h
    cases e with
    | load => simp [startedSince] at hs
    | update cs => exact ih h'.2 hs
    | finish b' t' => exact ih h'.2 hs
    | start b' =>
      simp only [startedSince, Bool.or_eq_true, beq_iff_eq] at hs
      rcases hs with rfl | hs
      · obtain ⟨⟨cs, pend, tl, rfl⟩, -⟩ := okEv_start h'.1
        left; simp [stOf]
      · exact ih h'.2 hs
    | set id prev new cs pend =>
      have hs' : startedSince t b = true := hs
      have := ih h'.2 hs'
      obtain ⟨_, h2, h3, -⟩ := okEv_set h'.1
      simp only [stOf]
      by_cases e : b = id
      · subst e
        simp
        have := legal_from_late h3 (by rw [h2]; exact this)
        rcases this with h | h <;> simp [h]
      · rw [upd_other _ _ _ _ e]; exact this

/-- **C01, at most once**: no command is started a second time within one `Work` (i.e. unless
    the manifest was regenerated and reloaded in between). -/
theorem start_once {tr : List Ev} {b : Nat} (h : okTrace g par sh (.start b :: tr) = true) :
    startedSince tr b = false := by
  have h' := okTrace_cons.mp h
  obtain ⟨⟨cs, pend, tl, rfl⟩, -⟩ := okEv_start h'.1
  have h'' := okTrace_cons.mp h'.2
  obtain ⟨_, h2, -⟩ := okEv_set h''.1
  cases hs : startedSince (.set b .queued .running cs pend :: tl) b with
  | false => rfl
  | true =>
    have hs' : startedSince tl b = true := hs
    have := started_is_late h''.2 b hs'
    rw [← h2] at this
    simp at this

theorem withinLimits_unknown : withinLimits g par sh (fun _ => St.unknown) = true := by
  simp only [withinLimits, Bool.and_eq_true, decide_eq_true_eq, List.all_eq_true, Bool.or_eq_true, beq_iff_eq]
  refine ⟨?_, ?_⟩
  · rw [cnt_eq_zero _ _ (fun b => by simp)]; omega
  · intro nd _; right; rw [cnt_eq_zero _ _ (fun b => by simp)]; omega

/-- A `set` that does not enter `Running` cannot push the running counts up. -/
theorem withinLimits_upd {st : Nat → St} {id : Nat} {new : St} (hid : id < g.nBuilds) (hn : new ≠ .running)
    (h : withinLimits g par sh st = true) : withinLimits g par sh (upd st id new) = true := by
  simp only [withinLimits, Bool.and_eq_true, decide_eq_true_eq, List.all_eq_true, Bool.or_eq_true, beq_iff_eq] at h ⊢
  refine ⟨?_, ?_⟩
  · have := cnt_upd g st id new hid (fun x _ => x == .running)
    simp [hn] at this
    have h1 := h.1
    split at this <;> omega
  · intro nd hnd
    rcases h.2 nd hnd with h0 | hle
    · left; exact h0
    · right
      have := cnt_upd g st id new hid (fun x b => x == .running && (g.build b).pool == nd.1)
      simp [hn] at this
      split at this <;> omega

/-- **C04, at every instant**: in every state a good trace passes through, at most `-j` builds are
    `Running`, and for every pool of depth d > 0 at most d of the builds assigned to it. -/
theorem limits_always {tr : List Ev} (h : okTrace g par sh tr = true) :
    withinLimits g par sh (stOf tr) = true := by
  induction tr with
  | nil => exact withinLimits_unknown
  | cons e t ih =>
    have h' := okTrace_cons.mp h
    cases e with
    | load => exact withinLimits_unknown
    | update cs => exact ih h'.2
    | start b' => exact ih h'.2
    | finish b' t' => exact ih h'.2
    | set id prev new cs pend =>
      obtain ⟨hid, -, -, -, -, -, h7⟩ := okEv_set h'.1
      simp only [stOf]
      by_cases hn : new = .running
      · exact h7 hn
      · exact withinLimits_upd hid hn (ih h'.2)

/-- **C19, at every update**: the counts shown are the numbers of non-phony builds in each state. -/
theorem counts_at_every_update {tr tr' : List Ev} {cs : List Int} (h : okTrace g par sh tr = true)
    (hs : (.update cs :: tr') <:+ tr) : cs = exactCounts g (stOf tr') := by
  have := okEv_of_suffix h hs
  simpa [okEv] using this

/-- ... and at every transition, together with the pending total. -/
theorem counts_at_every_set {tr tr' : List Ev} {id : Nat} {prev new : St} {cs : List Int} {pend : Int}
    (h : okTrace g par sh tr = true) (hs : (.set id prev new cs pend :: tr') <:+ tr) :
    cs = exactCounts g (stOf (.set id prev new cs pend :: tr')) ∧
    pend = (cnt g.nBuilds (fun b => active (stOf (.set id prev new cs pend :: tr') b)) : Int) := by
  obtain ⟨-, -, -, h4, h5, -⟩ := okEv_set (okEv_of_suffix h hs)
  exact ⟨h4, h5⟩

end N2V.Sched
