/-
  `record_finished` with reported dependencies: the general form of `recordFinished_plain`.
-/
import N2V.Lemmas.WorkSkip
namespace N2V.Work
open N2V N2V.Load

/-- `i` is the id `id_from_canonical` returns for its own name (the first file of that name). -/
def CanonId (g : GraphM) (i : Nat) : Prop :=
  g.files.findIdx? (fun f => f.name == fileName g i) = some i

theorem Ext.canonId {g g' : GraphM} (h : Ext g g') (i : Nat) (hi : i < g.files.length) (hc : CanonId g i) :
    CanonId g' i := by
  unfold CanonId at hc ⊢
  rw [h.fileName_old i hi]
  obtain ⟨x, hx, _⟩ := h.files
  rw [hx, List.findIdx?_append, hc]
  rfl

theorem idFromCanonical_canon (g : GraphM) (n : Bytes) :
    CanonId (idFromCanonical g n).1 (idFromCanonical g n).2 := by
  have hname := (idFromCanonical_spec g n).2.1
  unfold CanonId
  rw [hname]
  unfold idFromCanonical
  cases h : g.files.findIdx? (fun f => f.name == n) with
  | some i => simp only []; exact h
  | none =>
    simp only []
    rw [List.findIdx?_append, h]
    simp

/-- The kept list: valid canonical ids outside the dirtying inputs; the graph only gains source
    files; nothing else changes. -/
theorem keepDeps_ids (dirtying : List Nat) (ns : List Bytes) : ∀ (e : Env) (acc : List Nat),
    (∀ i ∈ acc, i < e.g.files.length ∧ CanonId e.g i ∧ i ∉ dirtying) →
    Ext e.g (keepDeps e dirtying ns acc).1.g ∧
    ∀ i ∈ (keepDeps e dirtying ns acc).2,
      i < (keepDeps e dirtying ns acc).1.g.files.length ∧ CanonId (keepDeps e dirtying ns acc).1.g i ∧ i ∉ dirtying := by
  induction ns with
  | nil => intro e acc h; exact ⟨Ext.refl _, h⟩
  | cons n ns ih =>
    intro e acc h
    unfold keepDeps
    split
    · exact ih e acc h
    · split
      · rename_i c hc
        obtain ⟨hx, _, hlt⟩ := idFromCanonical_spec e.g c
        have hcan := idFromCanonical_canon e.g c
        have hacc : ∀ i ∈ acc, i < (intern e c).1.g.files.length ∧ CanonId (intern e c).1.g i ∧ i ∉ dirtying := by
          intro i hi
          obtain ⟨a1, a2, a3⟩ := h i hi
          exact ⟨Nat.lt_of_lt_of_le a1 hx.length_le, hx.canonId i a1 a2, a3⟩
        by_cases hcond : (acc.contains (intern e c).2 || dirtying.contains (intern e c).2) = true
        · rw [if_pos hcond]
          obtain ⟨b1, b2⟩ := ih (intern e c).1 acc hacc
          exact ⟨hx.trans b1, b2⟩
        · rw [if_neg hcond]
          have hnd : (intern e c).2 ∉ dirtying := by
            intro hin
            apply hcond
            simp only [Bool.or_eq_true, List.contains_eq_mem, decide_eq_true_eq]
            exact Or.inr hin
          obtain ⟨b1, b2⟩ := ih (intern e c).1 (acc ++ [(intern e c).2]) (by
            intro i hi
            rcases List.mem_append.mp hi with hi | hi
            · exact hacc i hi
            · simp only [List.mem_singleton] at hi
              subst hi
              exact ⟨hlt, hcan, hnd⟩)
          exact ⟨hx.trans b1, b2⟩
      · exact ih e acc h

theorem mtimeOf_ext {e e' : Env} (hx : Ext e.g e'.g) (hfs : e'.fs = e.fs) (f : Nat) (hf : f < e.g.files.length) :
    mtimeOf e' f = mtimeOf e f := by
  unfold mtimeOf; rw [hfs, hx.fileName_old f hf]

/-- `record_finished`, whatever the command reported. -/
theorem recordFinished_gen (e : Env) (b : Nat) (bm : BuildM) (hb : buildOf e.g b = some bm) (deps : Option (List Bytes)) :
    Ext e.g (recordFinished e b deps).g ∧ (recordFinished e b deps).fs = e.fs ∧
    (recordFinished e b deps).hashes = e.hashes ∧ (recordFinished e b deps).clock = e.clock ∧
    (∀ x, x ≠ b → discOf (recordFinished e b deps) x = discOf e x) ∧
    (∀ f ∈ discOf (recordFinished e b deps) b,
      f < (recordFinished e b deps).g.files.length ∧ CanonId (recordFinished e b deps).g f ∧ f ∉ bm.dirtying) ∧
    (∀ f m, assocGet (recordFinished e b deps).cache f = some m →
      assocGet e.cache f = some m ∨ m = mtimeOf (recordFinished e b deps) f) ∧
    (∀ f ∈ bm.dirtying ++ discOf (recordFinished e b deps) b ++ bm.outs,
      assocGet (recordFinished e b deps).cache f = some (mtimeOf (recordFinished e b deps) f)) ∧
    ((recordFinished e b deps).log = e.log ∨
      (recordFinished e b deps).log = e.log ++
        [⟨bm.outs.map (fileName (recordFinished e b deps).g),
          (discOf (recordFinished e b deps) b).map (fileName (recordFinished e b deps).g),
          manifestOf (recordFinished e b deps) bm b⟩]) ∧
    ((∀ f ∈ bm.dirtying ++ discOf (recordFinished e b deps) b ++ bm.outs,
        (mtimeOf (recordFinished e b deps) f).isSome = true) →
      (recordFinished e b deps).log = e.log ++
        [⟨bm.outs.map (fileName (recordFinished e b deps).g),
          (discOf (recordFinished e b deps) b).map (fileName (recordFinished e b deps).g),
          manifestOf (recordFinished e b deps) bm b⟩]) := by
  -- the pieces of `restat`
  obtain ⟨kx, kids⟩ := keepDeps_ids bm.dirtying (deps.getD []) e [] (by simp)
  obtain ⟨k1, k2, k3, k4, k5, k6⟩ := keepDeps_frame bm.dirtying (deps.getD []) e []
  generalize hkd : keepDeps e bm.dirtying (deps.getD []) [] = kd at kx kids k1 k2 k3 k4 k5 k6
  let e2 : Env := { kd.1 with disc := assocPut kd.1.disc b kd.2 }
  obtain ⟨f1, f2, f3, f4⟩ := statFold_stat (bm.dirtying ++ kd.2) e2
  let st := (bm.dirtying ++ kd.2).foldl (fun (acc : Bool × Env) f => let (m, e') := statFile acc.2 f; (acc.1 || m.isNone, e')) (false, e2)
  obtain ⟨o1, o2, o3⟩ := statAllOutputs_stat bm.outs st.2
  let r := (statAllOutputs st.2 bm.outs).2
  have hstat : Stat e2 r := f1.trans o1
  have hmst : mtimeOf st.2 = mtimeOf e2 := funext (fun f => mtimeOf_same f1.toSameButCache f)
  have hmr : mtimeOf r = mtimeOf e2 := funext (fun f => mtimeOf_same hstat.toSameButCache f)
  have hrestat : restat e bm b deps = (st.1, (statAllOutputs st.2 bm.outs).1, r) := by
    unfold restat; simp only [hkd]; rfl
  have hrg : r.g = kd.1.g := hstat.g
  have hdiscb : discOf r b = kd.2 := by
    unfold discOf; rw [hstat.disc]; simp [e2, assocGet_put_self]
  have hdisco : ∀ x, x ≠ b → discOf r x = discOf e x := by
    intro x hx
    unfold discOf
    rw [hstat.disc]
    simp only [e2]
    rw [assocGet_put_other _ _ _ _ hx, k3]
  have hcache : ∀ f m, assocGet r.cache f = some m → assocGet e.cache f = some m ∨ m = mtimeOf r f := by
    intro f m hm
    rcases hstat.fresh f m hm with h | h
    · left; rw [← k5]; exact h
    · right; rw [hmr]; exact h
  have hfresh : ∀ f ∈ bm.dirtying ++ discOf r b ++ bm.outs, assocGet r.cache f = some (mtimeOf r f) := by
    intro f hf
    rw [hdiscb] at hf
    rw [hmr]
    rcases List.mem_append.mp hf with hf | hf
    · have h1 := f3 f hf
      have := Stat.keeps_truthful o1 f (by rw [h1, hmst]) (o2 f (by unfold Cached; rw [h1]; rfl))
      rw [this, hmst]
    · rw [o3 f hf, hmst]
  have hfacts : Ext e.g r.g ∧ r.fs = e.fs ∧ r.hashes = e.hashes ∧ r.clock = e.clock :=
    ⟨by rw [hrg]; exact kx, hstat.fs.trans k2, hstat.hashes.trans k4, hstat.clock.trans k6⟩
  have hids : ∀ f ∈ discOf r b, f < r.g.files.length ∧ CanonId r.g f ∧ f ∉ bm.dirtying := by
    intro f hf; rw [hdiscb] at hf; rw [hrg]; exact kids f hf
  unfold recordFinished
  rw [hb]
  simp only [hrestat]
  by_cases hmiss : (st.1 || (statAllOutputs st.2 bm.outs).1.isSome) = true
  · rw [if_pos hmiss]
    refine ⟨hfacts.1, hfacts.2.1, hfacts.2.2.1, hfacts.2.2.2, hdisco, hids, hcache, hfresh,
      Or.inl (hstat.log.trans k1), ?_⟩
    intro hall
    exfalso
    rw [hdiscb, hmr] at hall
    have h1 : st.1 = false := f4 (fun f hf => hall f (by
      rcases List.mem_append.mp hf with h | h
      · simp [h]
      · simp [h]))
    have h2 : (statAllOutputs st.2 bm.outs).1 = none :=
      statAllOutputs_none bm.outs st.2 (fun o ho => by rw [hmst]; exact hall o (by simp [ho]))
    rw [h1, h2] at hmiss
    simp at hmiss
  · rw [if_neg hmiss]
    have hlog : ({ r with log := r.log ++ [⟨bm.outs.map (fileName r.g), (discOf r b).map (fileName r.g), manifestOf r bm b⟩] } : Env).log
        = e.log ++ [⟨bm.outs.map (fileName r.g), (discOf r b).map (fileName r.g), manifestOf r bm b⟩] := by
      show r.log ++ _ = _
      rw [hstat.log, k1]
    exact ⟨hfacts.1, hfacts.2.1, hfacts.2.2.1, hfacts.2.2.2, hdisco, hids, hcache, hfresh, Or.inr hlog, fun _ => hlog⟩

end N2V.Work
