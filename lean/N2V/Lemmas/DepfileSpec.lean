/-
  What the depfile parser computes, at byte level: for depfiles made of `target: prereq ...`
  entries with any spacing, backslash-newline continuations and blank lines, `parse` returns
  exactly the listed targets with their prerequisites, in order.
-/
import N2V.Lemmas.DepfileTotal
namespace N2V.Depfile
open N2V N2V.Scanner

/-- A byte that can occur inside a path of a depfile as compilers write them. -/
def safe (c : UInt8) : Prop := c ≠ NUL ∧ c ≠ SP ∧ c ≠ NL ∧ c ≠ BSL ∧ c ≠ CR

/-- Spacing between tokens: spaces and backslash-newline continuations. -/
inductive GapItem where
  | sp | cont
  deriving DecidableEq, Repr

def gapBytes : List GapItem → Bytes
  | [] => []
  | .sp :: g => SP :: gapBytes g
  | .cont :: g => BSL :: NL :: gapBytes g

/-- `skip_spaces` consumes a gap and stops at the first byte that is neither a space nor a
    backslash. -/
theorem skipSpaces_spec (buf : Array UInt8) (gs : List GapItem) : ∀ (fuel : Nat) (s : Scanner) (c : UInt8)
    (r : Bytes), G buf s → Rest buf s.ofs (gapBytes gs ++ c :: r) → c ≠ SP → c ≠ BSL → buf.size - s.ofs < fuel →
    ∃ s', skipSpaces fuel s = .ok () s' ∧ G buf s' ∧ s'.ofs = s.ofs + (gapBytes gs).length := by
  induction gs with
  | nil =>
    intro fuel s c r g hr hsp hbs hf
    cases fuel with
    | zero => omega
    | succ fuel =>
      obtain ⟨c', s1, hc, hrd, w1, ho, hn⟩ := read_ok g.w g.lt
      have hcc : c' = c := by
        have h0 : buf[s.ofs]? = some c := hr.head
        rw [hc] at h0; exact Option.some.inj h0
      subst hcc
      obtain ⟨s', hb, g', ho'⟩ := back_after_read g w1 ho
      refine ⟨s', ?_, g', by simp [gapBytes, ho']⟩
      unfold skipSpaces
      rw [hrd]
      have h1 : (c' == SP) = false := by simpa using hsp
      have h2 : (c' == BSL) = false := by simpa using hbs
      simp only [h1, h2, Bool.false_eq_true, if_false]
      rw [hb]
  | cons gi gs ih =>
    intro fuel s c r g hr hsp hbs hf
    have hlt := g.lt
    cases fuel with
    | zero => omega
    | succ fuel =>
      cases gi with
      | sp =>
        simp only [gapBytes, List.cons_append] at hr
        obtain ⟨c', s1, hc, hrd, w1, ho, hn⟩ := read_ok g.w g.lt
        have hcc : c' = SP := by rw [hr.head] at hc; exact (Option.some.inj hc).symm
        subst hcc
        have g1 : G buf s1 := ⟨w1, hn (by decide), by rw [ho]; exact ncr_after hc (by decide)⟩
        obtain ⟨s', h', g', ho'⟩ := ih fuel s1 c r g1 (by rw [ho]; exact hr.tail) hsp hbs (by omega)
        refine ⟨s', ?_, g', by simp [gapBytes, ho', ho]; omega⟩
        unfold skipSpaces
        rw [hrd]
        simp only [beq_self_eq_true, if_true]
        exact h'
      | cont =>
        simp only [gapBytes, List.cons_append] at hr
        obtain ⟨c', s1, hc, hrd, w1, ho, hn⟩ := read_ok g.w g.lt
        have hcc : c' = BSL := by rw [hr.head] at hc; exact (Option.some.inj hc).symm
        subst hcc
        have hlt1 : s1.ofs < buf.size := hn (by decide)
        obtain ⟨c2, s2, hc2, hrd2, w2, ho2, hn2⟩ := read_ok w1 hlt1
        have hr1 := hr.tail
        have hcc2 : c2 = NL := by rw [ho, hr1.head] at hc2; exact (Option.some.inj hc2).symm
        subst hcc2
        have g2 : G buf s2 := ⟨w2, hn2 (by decide), by rw [ho2]; exact ncr_after hc2 (by decide)⟩
        obtain ⟨s', h', g', ho'⟩ := ih fuel s2 c r g2 (by rw [ho2, ho]; exact hr1.tail) hsp hbs (by omega)
        refine ⟨s', ?_, g', by simp [gapBytes, ho', ho2, ho]; omega⟩
        unfold skipSpaces
        rw [hrd]
        have : (BSL == SP) = false := by decide
        simp only [this, Bool.false_eq_true, if_false, beq_self_eq_true, if_true]
        rw [hrd2]
        simp only [beq_self_eq_true, if_true]
        exact h'

/-- What may follow a path: end of input, a space, a newline, or a continuation. -/
def Term (r : Bytes) : Prop :=
  match r with
  | [] => False
  | d :: r' => d = NUL ∨ d = SP ∨ d = NL ∨ (d = BSL ∧ r'.head? = some NL)

/-- The loop of `read_path` consumes exactly a run of path bytes. -/
theorem readPathLoop_spec (buf : Array UInt8) (name : Bytes) : (∀ c ∈ name, safe c) → ∀ (fuel : Nat) (s : Scanner)
    (r : Bytes), SW buf s → Rest buf s.ofs (name ++ r) → Term r → (name = [] → NCR buf s.ofs) →
    buf.size - s.ofs < fuel →
    ∃ s', readPathLoop fuel s = .ok () s' ∧ G buf s' ∧ s'.ofs = s.ofs + name.length := by
  induction name with
  | nil =>
    intro _ fuel s r w hr ht hn0 hf
    simp only [List.nil_append] at hr
    cases r with
    | nil => exact absurd ht (by simp [Term])
    | cons d r' =>
      have hlt : s.ofs < buf.size := hr.lt
      cases fuel with
      | zero => omega
      | succ fuel =>
        obtain ⟨c', s1, hc, hrd, w1, ho, hn⟩ := read_ok w hlt
        have hcc : c' = d := by rw [hr.head] at hc; exact (Option.some.inj hc).symm
        subst hcc
        have g0 : G buf s := ⟨w, hlt, hn0 rfl⟩
        obtain ⟨s', hb, g', ho'⟩ := back_after_read g0 w1 ho
        refine ⟨s', ?_, g', by simp [ho']⟩
        unfold readPathLoop
        rw [hrd]
        simp only []
        rcases ht with h | h | h | ⟨h, hnl⟩
        · subst h; simp only [beq_self_eq_true, Bool.true_or, if_true]; rw [hb]
        · subst h; simp only [beq_self_eq_true, Bool.true_or, Bool.or_true, if_true]; rw [hb]
        · subst h; simp only [beq_self_eq_true, Bool.or_true, if_true]; rw [hb]
        · subst h
          have : (BSL == NUL || BSL == SP || BSL == NL) = false := by decide
          simp only [this, Bool.false_eq_true, if_false, beq_self_eq_true, if_true]
          have hlt1 : s1.ofs < buf.size := hn (by decide)
          obtain ⟨c2, hc2, hp⟩ := peek_ok w1 hlt1
          have hr1 := hr.tail
          cases r' with
          | nil => simp at hnl
          | cons x r'' =>
            simp at hnl; subst hnl
            have : c2 = NL := by rw [ho, hr1.head] at hc2; exact (Option.some.inj hc2).symm
            subst this
            rw [hp]
            simp only [beq_self_eq_true, if_true]
            rw [hb]
  | cons c name ih =>
    intro hs fuel s r w hr ht _ hf
    have hsc := hs c (by simp)
    simp only [List.cons_append] at hr
    have hlt : s.ofs < buf.size := hr.lt
    cases fuel with
    | zero => omega
    | succ fuel =>
      obtain ⟨c', s1, hc, hrd, w1, ho, hn⟩ := read_ok w hlt
      have hcc : c' = c := by rw [hr.head] at hc; exact (Option.some.inj hc).symm
      subst hcc
      obtain ⟨s', h', g', ho'⟩ := ih (fun x hx => hs x (by simp [hx])) fuel s1 r w1 (by rw [ho]; exact hr.tail) ht
        (fun _ => by rw [ho]; exact ncr_after hc hsc.2.2.2.2) (by omega)
      refine ⟨s', ?_, g', by simp [ho', ho]; omega⟩
      unfold readPathLoop
      rw [hrd]
      simp only []
      have h1 : (c' == NUL || c' == SP || c' == NL) = false := by
        simp [hsc.1, hsc.2.1, hsc.2.2.1]
      have h2 : (c' == BSL) = false := by simpa using hsc.2.2.2.1
      simp only [h1, h2, Bool.false_eq_true, if_false]
      exact h'


theorem term_gap (gs : List GapItem) (x : Bytes) (h : gs ≠ []) : Term (gapBytes gs ++ x) := by
  cases gs with
  | nil => exact absurd rfl h
  | cons gi gs =>
    cases gi with
    | sp => simp [gapBytes, Term]
    | cont => simp [gapBytes, Term, SP, NL, NUL, BSL]

theorem term_nl (r : Bytes) : Term (NL :: r) := by simp [Term]
theorem term_nul (r : Bytes) : Term (NUL :: r) := by simp [Term]

theorem safe_ne (c : UInt8) (h : safe c) : c ≠ SP ∧ c ≠ BSL := ⟨h.2.1, h.2.2.2.1⟩

/-- `read_path` on a gap followed by a path. -/
theorem readPath_some (buf : Array UInt8) (gs : List GapItem) (name r : Bytes) (hne : name ≠ [])
    (hs : ∀ c ∈ name, safe c) (fuel : Nat) (s : Scanner) (g : G buf s)
    (hr : Rest buf s.ofs (gapBytes gs ++ name ++ r)) (ht : Term r) (hf : buf.size - s.ofs < fuel) :
    ∃ s', readPath fuel s = .ok (some name) s' ∧ G buf s' ∧
      s'.ofs = s.ofs + (gapBytes gs).length + name.length ∧ Rest buf s'.ofs r := by
  obtain ⟨c, n', rfl⟩ : ∃ c n', name = c :: n' := by
    cases name with
    | nil => exact absurd rfl hne
    | cons c n' => exact ⟨c, n', rfl⟩
  have hc := safe_ne c (hs c (by simp))
  rw [List.append_assoc] at hr
  obtain ⟨s1, h1, g1, ho1⟩ := skipSpaces_spec buf gs fuel s c (n' ++ r) g (by simpa using hr) hc.1 hc.2 hf
  have hr1 : Rest buf s1.ofs ((c :: n') ++ r) := by rw [ho1]; exact hr.append
  obtain ⟨s2, h2, g2, ho2⟩ := readPathLoop_spec buf (c :: n') hs fuel s1 r g1.w hr1 ht (fun e => by cases e) (by omega)
  refine ⟨s2, ?_, g2, by omega, by rw [ho2]; exact hr1.append⟩
  unfold readPath
  rw [h1]
  simp only []
  rw [h2]
  simp only []
  have hne2 : (s2.ofs == s1.ofs) = false := by simp [ho2]
  simp only [hne2, Bool.false_eq_true, if_false]
  have hsl : s2.slice s1.ofs s2.ofs = .ok (c :: n') := by
    unfold slice
    have hcond : s1.ofs ≤ s2.ofs ∧ s2.ofs ≤ s2.buf.size := ⟨by omega, by rw [g2.w.hb]; exact Nat.le_of_lt g2.lt⟩
    rw [if_pos hcond, g2.w.hb, ho2, hr1.extract]
  rw [hsl]

/-- `read_path` on a gap followed by the end of the line (or of the input): no path. -/
theorem readPath_none (buf : Array UInt8) (gs : List GapItem) (d : UInt8) (r : Bytes) (hd : d = NL ∨ d = NUL)
    (fuel : Nat) (s : Scanner) (g : G buf s) (hr : Rest buf s.ofs (gapBytes gs ++ d :: r))
    (hf : buf.size - s.ofs < fuel) :
    ∃ s', readPath fuel s = .ok none s' ∧ G buf s' ∧ s'.ofs = s.ofs + (gapBytes gs).length ∧
      Rest buf s'.ofs (d :: r) := by
  have hdn : d ≠ SP ∧ d ≠ BSL := by rcases hd with h | h <;> subst h <;> decide
  obtain ⟨s1, h1, g1, ho1⟩ := skipSpaces_spec buf gs fuel s d r g hr hdn.1 hdn.2 hf
  have hr1 : Rest buf s1.ofs ([] ++ d :: r) := by rw [ho1]; exact hr.append
  have ht : Term (d :: r) := by rcases hd with h | h <;> subst h <;> simp [Term]
  obtain ⟨s2, h2, g2, ho2⟩ := readPathLoop_spec buf [] (by simp) fuel s1 (d :: r) g1.w hr1 ht (fun _ => g1.ncr) (by omega)
  refine ⟨s2, ?_, g2, by simp at ho2; omega, by simp at ho2; rw [ho2]; exact hr1⟩
  unfold readPath
  rw [h1]
  simp only []
  rw [h2]
  simp only []
  have : (s2.ofs == s1.ofs) = true := by simp at ho2; simp [ho2]
  simp only [this, if_true]

/-- The prerequisites of one entry as written: each preceded by a non-empty gap. -/
def depsBytes : List (List GapItem × Bytes) → Bytes
  | [] => []
  | (gs, n) :: rest => gapBytes gs ++ n ++ depsBytes rest

def DepsWF (deps : List (List GapItem × Bytes)) : Prop :=
  ∀ d ∈ deps, d.1 ≠ [] ∧ d.2 ≠ [] ∧ ∀ c ∈ d.2, safe c

theorem readDeps_spec (buf : Array UInt8) (pf : Nat) (deps : List (List GapItem × Bytes)) : DepsWF deps →
    ∀ (trail : List GapItem) (e : UInt8) (r : Bytes) (fuel : Nat) (s : Scanner) (acc : List Bytes), G buf s →
    (e = NL ∨ e = NUL) → Rest buf s.ofs (depsBytes deps ++ gapBytes trail ++ e :: r) →
    buf.size - s.ofs < fuel → buf.size - s.ofs < pf →
    ∃ s', readDeps fuel pf s acc = .ok (acc ++ deps.map (·.2)) s' ∧ G buf s' ∧ s.ofs ≤ s'.ofs ∧
      Rest buf s'.ofs (e :: r) := by
  induction deps with
  | nil =>
    intro _ trail e r fuel s acc g he hr hf hpf
    cases fuel with
    | zero => omega
    | succ fuel =>
      simp only [depsBytes, List.nil_append] at hr
      obtain ⟨s', h', g', ho', hr'⟩ := readPath_none buf trail e r he pf s g hr hpf
      refine ⟨s', ?_, g', by omega, hr'⟩
      unfold readDeps
      rw [h']
      simp
  | cons d deps ih =>
    intro hwf trail e r fuel s acc g he hr hf hpf
    obtain ⟨gs, n⟩ := d
    have hd := hwf (gs, n) (by simp)
    cases fuel with
    | zero => omega
    | succ fuel =>
      simp only [depsBytes] at hr
      have hterm : Term (depsBytes deps ++ gapBytes trail ++ e :: r) := by
        cases deps with
        | nil =>
          simp only [depsBytes, List.nil_append]
          cases trail with
          | nil => simp only [gapBytes, List.nil_append]; rcases he with h | h <;> subst h <;> simp [Term]
          | cons t ts => exact term_gap (t :: ts) _ (by simp)
        | cons d2 deps2 =>
          obtain ⟨gs2, n2⟩ := d2
          have := (hwf (gs2, n2) (by simp)).1
          simp only [depsBytes, List.append_assoc]
          exact term_gap gs2 _ this
      obtain ⟨s1, h1, g1, ho1, hr1⟩ := readPath_some buf gs n _ hd.2.1 hd.2.2 pf s g
        (by simpa [List.append_assoc] using hr) hterm hpf
      have hpos : 0 < n.length := by cases n with | nil => exact absurd rfl hd.2.1 | cons _ _ => simp
      have hlt := g.lt
      have hlt1 := g1.lt
      obtain ⟨s', h', g', ho', hr'⟩ := ih (fun x hx => hwf x (by simp [hx])) trail e r fuel s1 (acc ++ [n]) g1 he hr1
        (by omega) (by omega)
      refine ⟨s', ?_, g', by omega, hr'⟩
      unfold readDeps
      rw [h1]
      simp only []
      rw [h']
      simp [List.append_assoc]

end N2V.Depfile
