/-
  What the depfile parser computes, at byte level: for depfiles made of `target: prereq ...`
  entries with any spacing, backslash-newline continuations and blank lines, `parse` returns
  exactly the listed targets with their prerequisites, in order.
-/
import N2V.Lemmas.DepfileTotal
namespace N2V.Depfile
open N2V N2V.Scanner

/-- A byte that can occur inside a path of a depfile as compilers write them. -/
def safe (c : UInt8) : Prop := c ≠ NUL ∧ c ≠ SP ∧ c ≠ NL ∧ c ≠ BSL ∧ c ≠ CR

/-- Spacing between tokens: spaces and backslash-newline continuations. -/
inductive GapItem where
  | sp | cont
  deriving DecidableEq, Repr

def gapBytes : List GapItem → Bytes
  | [] => []
  | .sp :: g => SP :: gapBytes g
  | .cont :: g => BSL :: NL :: gapBytes g

/-- `skip_spaces` consumes a gap and stops at the first byte that is neither a space nor a
    backslash. -/
theorem skipSpaces_spec (buf : Array UInt8) (gs : List GapItem) : ∀ (fuel : Nat) (s : Scanner) (c : UInt8)
    (r : Bytes), G buf s → Rest buf s.ofs (gapBytes gs ++ c :: r) → c ≠ SP → c ≠ BSL → buf.size - s.ofs < fuel →
    ∃ s', skipSpaces fuel s = .ok () s' ∧ G buf s' ∧ s'.ofs = s.ofs + (gapBytes gs).length := by
  induction gs with
  | nil =>
    intro fuel s c r g hr hsp hbs hf
    cases fuel with
    | zero => omega
    | succ fuel =>
      obtain ⟨c', s1, hc, hrd, w1, ho, hn⟩ := read_ok g.w g.lt
      have hcc : c' = c := by
        have h0 : buf[s.ofs]? = some c := hr.head
        rw [hc] at h0; exact Option.some.inj h0
      subst hcc
      obtain ⟨s', hb, g', ho'⟩ := back_after_read g w1 ho
      refine ⟨s', ?_, g', by simp [gapBytes, ho']⟩
      unfold skipSpaces
      rw [hrd]
      have h1 : (c' == SP) = false := by simpa using hsp
      have h2 : (c' == BSL) = false := by simpa using hbs
      simp only [h1, h2, Bool.false_eq_true, if_false]
      rw [hb]
  | cons gi gs ih =>
    intro fuel s c r g hr hsp hbs hf
    have hlt := g.lt
    cases fuel with
    | zero => omega
    | succ fuel =>
      cases gi with
      | sp =>
        simp only [gapBytes, List.cons_append] at hr
        obtain ⟨c', s1, hc, hrd, w1, ho, hn⟩ := read_ok g.w g.lt
        have hcc : c' = SP := by rw [hr.head] at hc; exact (Option.some.inj hc).symm
        subst hcc
        have g1 : G buf s1 := ⟨w1, hn (by decide), by rw [ho]; exact ncr_after hc (by decide)⟩
        obtain ⟨s', h', g', ho'⟩ := ih fuel s1 c r g1 (by rw [ho]; exact hr.tail) hsp hbs (by omega)
        refine ⟨s', ?_, g', by simp [gapBytes, ho', ho]; omega⟩
        unfold skipSpaces
        rw [hrd]
        simp only [beq_self_eq_true, if_true]
        exact h'
      | cont =>
        simp only [gapBytes, List.cons_append] at hr
        obtain ⟨c', s1, hc, hrd, w1, ho, hn⟩ := read_ok g.w g.lt
        have hcc : c' = BSL := by rw [hr.head] at hc; exact (Option.some.inj hc).symm
        subst hcc
        have hlt1 : s1.ofs < buf.size := hn (by decide)
        obtain ⟨c2, s2, hc2, hrd2, w2, ho2, hn2⟩ := read_ok w1 hlt1
        have hr1 := hr.tail
        have hcc2 : c2 = NL := by rw [ho, hr1.head] at hc2; exact (Option.some.inj hc2).symm
        subst hcc2
        have g2 : G buf s2 := ⟨w2, hn2 (by decide), by rw [ho2]; exact ncr_after hc2 (by decide)⟩
        obtain ⟨s', h', g', ho'⟩ := ih fuel s2 c r g2 (by rw [ho2, ho]; exact hr1.tail) hsp hbs (by omega)
        refine ⟨s', ?_, g', by simp [gapBytes, ho', ho2, ho]; omega⟩
        unfold skipSpaces
        rw [hrd]
        have : (BSL == SP) = false := by decide
        simp only [this, Bool.false_eq_true, if_false, beq_self_eq_true, if_true]
        rw [hrd2]
        simp only [beq_self_eq_true, if_true]
        exact h'

/-- What may follow a path: end of input, a space, a newline, or a continuation. -/
def Term (r : Bytes) : Prop :=
  match r with
  | [] => False
  | d :: r' => d = NUL ∨ d = SP ∨ d = NL ∨ (d = BSL ∧ r'.head? = some NL)

/-- The loop of `read_path` consumes exactly a run of path bytes. -/
theorem readPathLoop_spec (buf : Array UInt8) (name : Bytes) : (∀ c ∈ name, safe c) → ∀ (fuel : Nat) (s : Scanner)
    (r : Bytes), SW buf s → Rest buf s.ofs (name ++ r) → Term r → (name = [] → NCR buf s.ofs) →
    buf.size - s.ofs < fuel →
    ∃ s', readPathLoop fuel s = .ok () s' ∧ G buf s' ∧ s'.ofs = s.ofs + name.length := by
  induction name with
  | nil =>
    intro _ fuel s r w hr ht hn0 hf
    simp only [List.nil_append] at hr
    cases r with
    | nil => exact absurd ht (by simp [Term])
    | cons d r' =>
      have hlt : s.ofs < buf.size := hr.lt
      cases fuel with
      | zero => omega
      | succ fuel =>
        obtain ⟨c', s1, hc, hrd, w1, ho, hn⟩ := read_ok w hlt
        have hcc : c' = d := by rw [hr.head] at hc; exact (Option.some.inj hc).symm
        subst hcc
        have g0 : G buf s := ⟨w, hlt, hn0 rfl⟩
        obtain ⟨s', hb, g', ho'⟩ := back_after_read g0 w1 ho
        refine ⟨s', ?_, g', by simp [ho']⟩
        unfold readPathLoop
        rw [hrd]
        simp only []
        rcases ht with h | h | h | ⟨h, hnl⟩
        · subst h; simp only [beq_self_eq_true, Bool.true_or, if_true]; rw [hb]
        · subst h; simp only [beq_self_eq_true, Bool.true_or, Bool.or_true, if_true]; rw [hb]
        · subst h; simp only [beq_self_eq_true, Bool.or_true, if_true]; rw [hb]
        · subst h
          have : (BSL == NUL || BSL == SP || BSL == NL) = false := by decide
          simp only [this, Bool.false_eq_true, if_false, beq_self_eq_true, if_true]
          have hlt1 : s1.ofs < buf.size := hn (by decide)
          obtain ⟨c2, hc2, hp⟩ := peek_ok w1 hlt1
          have hr1 := hr.tail
          cases r' with
          | nil => simp at hnl
          | cons x r'' =>
            simp at hnl; subst hnl
            have : c2 = NL := by rw [ho, hr1.head] at hc2; exact (Option.some.inj hc2).symm
            subst this
            rw [hp]
            simp only [beq_self_eq_true, if_true]
            rw [hb]
  | cons c name ih =>
    intro hs fuel s r w hr ht _ hf
    have hsc := hs c (by simp)
    simp only [List.cons_append] at hr
    have hlt : s.ofs < buf.size := hr.lt
    cases fuel with
    | zero => omega
    | succ fuel =>
      obtain ⟨c', s1, hc, hrd, w1, ho, hn⟩ := read_ok w hlt
      have hcc : c' = c := by rw [hr.head] at hc; exact (Option.some.inj hc).symm
      subst hcc
      obtain ⟨s', h', g', ho'⟩ := ih (fun x hx => hs x (by simp [hx])) fuel s1 r w1 (by rw [ho]; exact hr.tail) ht
        (fun _ => by rw [ho]; exact ncr_after hc hsc.2.2.2.2) (by omega)
      refine ⟨s', ?_, g', by simp [ho', ho]; omega⟩
      unfold readPathLoop
      rw [hrd]
      simp only []
      have h1 : (c' == NUL || c' == SP || c' == NL) = false := by
        simp [hsc.1, hsc.2.1, hsc.2.2.1]
      have h2 : (c' == BSL) = false := by simpa using hsc.2.2.2.1
      simp only [h1, h2, Bool.false_eq_true, if_false]
      exact h'


theorem term_gap (gs : List GapItem) (x : Bytes) (h : gs ≠ []) : Term (gapBytes gs ++ x) := by
  cases gs with
  | nil => exact absurd rfl h
  | cons gi gs =>
    cases gi with
    | sp => simp [gapBytes, Term]
    | cont => simp [gapBytes, Term, SP, NL, NUL, BSL]

theorem term_nl (r : Bytes) : Term (NL :: r) := by simp [Term]
theorem term_nul (r : Bytes) : Term (NUL :: r) := by simp [Term]

theorem safe_ne (c : UInt8) (h : safe c) : c ≠ SP ∧ c ≠ BSL := ⟨h.2.1, h.2.2.2.1⟩

/-- `read_path` on a gap followed by a path. -/
theorem readPath_some (buf : Array UInt8) (gs : List GapItem) (name r : Bytes) (hne : name ≠ [])
    (hs : ∀ c ∈ name, safe c) (fuel : Nat) (s : Scanner) (g : G buf s)
    (hr : Rest buf s.ofs (gapBytes gs ++ name ++ r)) (ht : Term r) (hf : buf.size - s.ofs < fuel) :
    ∃ s', readPath fuel s = .ok (some name) s' ∧ G buf s' ∧
      s'.ofs = s.ofs + (gapBytes gs).length + name.length ∧ Rest buf s'.ofs r := by
  obtain ⟨c, n', rfl⟩ : ∃ c n', name = c :: n' := by
    cases name with
    | nil => exact absurd rfl hne
    | cons c n' => exact ⟨c, n', rfl⟩
  have hc := safe_ne c (hs c (by simp))
  rw [List.append_assoc] at hr
  obtain ⟨s1, h1, g1, ho1⟩ := skipSpaces_spec buf gs fuel s c (n' ++ r) g (by simpa using hr) hc.1 hc.2 hf
  have hr1 : Rest buf s1.ofs ((c :: n') ++ r) := by rw [ho1]; exact hr.append
  obtain ⟨s2, h2, g2, ho2⟩ := readPathLoop_spec buf (c :: n') hs fuel s1 r g1.w hr1 ht (fun e => by cases e) (by omega)
  refine ⟨s2, ?_, g2, by omega, by rw [ho2]; exact hr1.append⟩
  unfold readPath
  rw [h1]
  simp only []
  rw [h2]
  simp only []
  have hne2 : (s2.ofs == s1.ofs) = false := by simp [ho2]
  simp only [hne2, Bool.false_eq_true, if_false]
  have hsl : s2.slice s1.ofs s2.ofs = .ok (c :: n') := by
    unfold slice
    have hcond : s1.ofs ≤ s2.ofs ∧ s2.ofs ≤ s2.buf.size := ⟨by omega, by rw [g2.w.hb]; exact Nat.le_of_lt g2.lt⟩
    rw [if_pos hcond, g2.w.hb, ho2, hr1.extract]
  rw [hsl]

/-- `read_path` on a gap followed by the end of the line (or of the input): no path. -/
theorem readPath_none (buf : Array UInt8) (gs : List GapItem) (d : UInt8) (r : Bytes) (hd : d = NL ∨ d = NUL)
    (fuel : Nat) (s : Scanner) (g : G buf s) (hr : Rest buf s.ofs (gapBytes gs ++ d :: r))
    (hf : buf.size - s.ofs < fuel) :
    ∃ s', readPath fuel s = .ok none s' ∧ G buf s' ∧ s'.ofs = s.ofs + (gapBytes gs).length ∧
      Rest buf s'.ofs (d :: r) := by
  have hdn : d ≠ SP ∧ d ≠ BSL := by rcases hd with h | h <;> subst h <;> decide
  obtain ⟨s1, h1, g1, ho1⟩ := skipSpaces_spec buf gs fuel s d r g hr hdn.1 hdn.2 hf
  have hr1 : Rest buf s1.ofs ([] ++ d :: r) := by rw [ho1]; exact hr.append
  have ht : Term (d :: r) := by rcases hd with h | h <;> subst h <;> simp [Term]
  obtain ⟨s2, h2, g2, ho2⟩ := readPathLoop_spec buf [] (by simp) fuel s1 (d :: r) g1.w hr1 ht (fun _ => g1.ncr) (by omega)
  refine ⟨s2, ?_, g2, by simp at ho2; omega, by simp at ho2; rw [ho2]; exact hr1⟩
  unfold readPath
  rw [h1]
  simp only []
  rw [h2]
  simp only []
  have : (s2.ofs == s1.ofs) = true := by simp at ho2; simp [ho2]
  simp only [this, if_true]

/-- The prerequisites of one entry as written: each preceded by a non-empty gap. -/
def depsBytes : List (List GapItem × Bytes) → Bytes
  | [] => []
  | (gs, n) :: rest => gapBytes gs ++ n ++ depsBytes rest

/-- Names are non-empty runs of path bytes; every gap but the first is non-empty (the first may
    be: `t :dep`). -/
def DepsWF (deps : List (List GapItem × Bytes)) : Prop :=
  (∀ d ∈ deps, d.2 ≠ [] ∧ ∀ c ∈ d.2, safe c) ∧ (∀ d ∈ deps.tail, d.1 ≠ [])

theorem readDeps_spec (buf : Array UInt8) (pf : Nat) (deps : List (List GapItem × Bytes)) : DepsWF deps →
    ∀ (trail : List GapItem) (e : UInt8) (r : Bytes) (fuel : Nat) (s : Scanner) (acc : List Bytes), G buf s →
    (e = NL ∨ e = NUL) → Rest buf s.ofs (depsBytes deps ++ gapBytes trail ++ e :: r) →
    buf.size - s.ofs < fuel → buf.size - s.ofs < pf →
    ∃ s', readDeps fuel pf s acc = .ok (acc ++ deps.map (·.2)) s' ∧ G buf s' ∧ s.ofs ≤ s'.ofs ∧
      Rest buf s'.ofs (e :: r) := by
  induction deps with
  | nil =>
    intro _ trail e r fuel s acc g he hr hf hpf
    cases fuel with
    | zero => omega
    | succ fuel =>
      simp only [depsBytes, List.nil_append] at hr
      obtain ⟨s', h', g', ho', hr'⟩ := readPath_none buf trail e r he pf s g hr hpf
      refine ⟨s', ?_, g', by omega, hr'⟩
      unfold readDeps
      rw [h']
      simp
  | cons d deps ih =>
    intro hwf trail e r fuel s acc g he hr hf hpf
    obtain ⟨gs, n⟩ := d
    have hd := hwf.1 (gs, n) (by simp)
    cases fuel with
    | zero => omega
    | succ fuel =>
      simp only [depsBytes] at hr
      have hterm : Term (depsBytes deps ++ gapBytes trail ++ e :: r) := by
        cases deps with
        | nil =>
          simp only [depsBytes, List.nil_append]
          cases trail with
          | nil => simp only [gapBytes, List.nil_append]; rcases he with h | h <;> subst h <;> simp [Term]
          | cons t ts => exact term_gap (t :: ts) _ (by simp)
        | cons d2 deps2 =>
          obtain ⟨gs2, n2⟩ := d2
          have := hwf.2 (gs2, n2) (by simp)
          simp only [depsBytes, List.append_assoc]
          exact term_gap gs2 _ this
      obtain ⟨s1, h1, g1, ho1, hr1⟩ := readPath_some buf gs n _ hd.1 hd.2 pf s g
        (by simpa [List.append_assoc] using hr) hterm hpf
      have hpos : 0 < n.length := by cases n with | nil => exact absurd rfl hd.1 | cons _ _ => simp
      have hlt := g.lt
      have hlt1 := g1.lt
      obtain ⟨s', h', g', ho', hr'⟩ := ih ⟨fun x hx => hwf.1 x (by simp [hx]), fun x hx => hwf.2 x (by
          simp only [List.tail_cons]; exact List.mem_of_mem_tail hx)⟩ trail e r fuel s1 (acc ++ [n]) g1 he hr1
        (by omega) (by omega)
      refine ⟨s', ?_, g', by omega, hr'⟩
      unfold readDeps
      rw [h1]
      simp only []
      rw [h']
      simp [List.append_assoc]


/-- Blank space between entries: spaces and newlines. -/
def blankOk (b : Bytes) : Prop := ∀ c ∈ b, c = SP ∨ c = NL

theorem skipBlank_spec (buf : Array UInt8) (blank : Bytes) : blankOk blank → ∀ (fuel : Nat) (s : Scanner) (c : UInt8)
    (r : Bytes), G buf s → Rest buf s.ofs (blank ++ c :: r) → c ≠ SP → c ≠ NL → buf.size - s.ofs < fuel →
    ∃ s', skipBlank fuel s = .ok () s' ∧ G buf s' ∧ s'.ofs = s.ofs + blank.length := by
  induction blank with
  | nil =>
    intro _ fuel s c r g hr hsp hnl hf
    cases fuel with
    | zero => omega
    | succ fuel =>
      obtain ⟨c', hc, hp⟩ := peek_ok g.w g.lt
      have hcc : c' = c := by
        have h0 : buf[s.ofs]? = some c := hr.head
        rw [hc] at h0; exact Option.some.inj h0
      subst hcc
      refine ⟨s, ?_, g, by simp⟩
      unfold skipBlank
      rw [hp]
      have : (c' == SP || c' == NL) = false := by simp [hsp, hnl]
      simp only [this, Bool.false_eq_true, if_false]
  | cons b blank ih =>
    intro hb fuel s c r g hr hsp hnl hf
    have hlt := g.lt
    have hb0 := hb b (by simp)
    cases fuel with
    | zero => omega
    | succ fuel =>
      simp only [List.cons_append] at hr
      obtain ⟨c', hc, hp⟩ := peek_ok g.w g.lt
      have hcc : c' = b := by rw [hr.head] at hc; exact (Option.some.inj hc).symm
      subst hcc
      obtain ⟨c2, s1, hc2, hnx, w1, ho, hn⟩ := next_ok g.w g.lt
      have hcc2 : c2 = c' := by rw [hc] at hc2; exact (Option.some.inj hc2).symm
      subst hcc2
      have hcn : c2 ≠ NUL := by rcases hb0 with h | h <;> subst h <;> decide
      have hcr : c2 ≠ CR := by rcases hb0 with h | h <;> subst h <;> decide
      have g1 : G buf s1 := ⟨w1, hn hcn, by rw [ho]; exact ncr_after hc hcr⟩
      obtain ⟨s', h', g', ho'⟩ := ih (fun x hx => hb x (by simp [hx])) fuel s1 c r g1 (by rw [ho]; exact hr.tail) hsp hnl (by omega)
      refine ⟨s', ?_, g', by simp [ho', ho]; omega⟩
      unfold skipBlank
      rw [hp]
      have : (c2 == SP || c2 == NL) = true := by rcases hb0 with h | h <;> subst h <;> decide
      simp only [this, if_true]
      rw [hnx]
      exact h'

/-- The scanner's own `skip_spaces` over a run of spaces. -/
theorem scanner_skipSpaces_spec (buf : Array UInt8) (a : Nat) : ∀ (fuel : Nat) (s : Scanner) (c : UInt8) (r : Bytes),
    G buf s → Rest buf s.ofs (List.replicate a SP ++ c :: r) → c ≠ SP → buf.size - s.ofs < fuel →
    ∃ s', Scanner.skipSpaces fuel s = .ok s' ∧ G buf s' ∧ s'.ofs = s.ofs + a := by
  induction a with
  | zero =>
    intro fuel s c r g hr hsp hf
    cases fuel with
    | zero => omega
    | succ fuel =>
      obtain ⟨c', s1, hc, hrd, w1, ho, hn⟩ := read_ok g.w g.lt
      have hcc : c' = c := by
        have h0 : buf[s.ofs]? = some c := hr.head
        rw [hc] at h0; exact Option.some.inj h0
      subst hcc
      obtain ⟨s', hb, g', ho'⟩ := back_after_read g w1 ho
      refine ⟨s', ?_, g', by omega⟩
      unfold Scanner.skipSpaces skip
      rw [hrd]
      have : (c' != SP) = true := by simpa using hsp
      simp only [this, if_true]
      rw [hb]
  | succ a ih =>
    intro fuel s c r g hr hsp hf
    have hlt := g.lt
    cases fuel with
    | zero => omega
    | succ fuel =>
      simp only [List.replicate_succ, List.cons_append] at hr
      obtain ⟨c', s1, hc, hrd, w1, ho, hn⟩ := read_ok g.w g.lt
      have hcc : c' = SP := by rw [hr.head] at hc; exact (Option.some.inj hc).symm
      subst hcc
      have g1 : G buf s1 := ⟨w1, hn (by decide), by rw [ho]; exact ncr_after hc (by decide)⟩
      obtain ⟨s', h', g', ho'⟩ := ih fuel s1 c r g1 (by rw [ho]; exact hr.tail) hsp (by omega)
      refine ⟨s', ?_, g', by omega⟩
      unfold Scanner.skipSpaces skip
      rw [hrd]
      simp only [bne_self_eq_false, Bool.false_eq_true, if_false]
      exact h'


/-! ### Whole depfiles -/

def leadSp : List GapItem → Nat
  | .sp :: g => leadSp g + 1
  | _ => 0

def dropSp : List GapItem → List GapItem
  | .sp :: g => dropSp g
  | g => g

theorem gapBytes_split (gs : List GapItem) :
    gapBytes gs = List.replicate (leadSp gs) SP ++ gapBytes (dropSp gs) := by
  induction gs with
  | nil => rfl
  | cons gi gs ih =>
    cases gi with
    | sp => simp [gapBytes, leadSp, dropSp, ih, List.replicate_succ]
    | cont => simp [gapBytes, leadSp, dropSp]

theorem dropSp_head (gs : List GapItem) (c : UInt8) (x : Bytes) (hc : c ≠ SP) :
    ∃ c' x', gapBytes (dropSp gs) ++ c :: x = c' :: x' ∧ c' ≠ SP := by
  induction gs with
  | nil => exact ⟨c, x, rfl, hc⟩
  | cons gi gs ih =>
    cases gi with
    | sp => exact ih
    | cont => exact ⟨BSL, _, rfl, by decide⟩

/-- One entry as written: `target`, spaces, `:`, prerequisites each after a gap, trailing gap. -/
structure FEntry where
  blank : Bytes                       -- blank space (spaces, newlines) before the entry
  target : Bytes
  colonSp : Nat                       -- spaces between the target and the colon (0: `t:`)
  deps : List (List GapItem × Bytes)
  trail : List GapItem

def EntryWF (e : FEntry) : Prop :=
  blankOk e.blank ∧ e.target ≠ [] ∧ (∀ c ∈ e.target, safe c) ∧
  (0 < e.colonSp → e.target.getLast? ≠ some COLON) ∧ DepsWF e.deps ∧
  (e.colonSp = 0 → ∀ d ∈ e.deps.head?, d.1 ≠ [])

def entryCore (e : FEntry) : Bytes :=
  e.target ++ List.replicate e.colonSp SP ++ [COLON] ++ depsBytes e.deps ++ gapBytes e.trail

def bodyBytes : List FEntry → Bytes → Bytes
  | [], tail => tail
  | e :: es, tail => e.blank ++ entryCore e ++ NL :: bodyBytes es tail

theorem bodyBytes_append (es : List FEntry) (a b : Bytes) : bodyBytes es a ++ b = bodyBytes es (a ++ b) := by
  induction es with
  | nil => rfl
  | cons e es ih => simp [bodyBytes, ih, List.append_assoc]

def entriesOf (es : List FEntry) : Entries := es.map (fun e => (e.target, e.deps.map (·.2)))

theorem stripColon_glued (t : Bytes) : stripColon (t ++ [COLON]) = some t := by
  unfold stripColon
  simp

theorem stripColon_none (t : Bytes) (h : t.getLast? ≠ some COLON) : stripColon t = none := by
  unfold stripColon
  have : (t.getLast? == some COLON) = false := by simpa using h
  simp [this]

theorem colon_safe : safe COLON := by refine ⟨?_, ?_, ?_, ?_, ?_⟩ <;> decide

/-- The prerequisites, the trailing gap and the newline of one entry. -/
theorem deps_then_nl (buf : Array UInt8) (pf : Nat) (deps : List (List GapItem × Bytes)) (hwf : DepsWF deps)
    (trail : List GapItem) (r : Bytes) (s : Scanner) (acc : List Bytes) (g : G buf s)
    (hr : Rest buf s.ofs (depsBytes deps ++ gapBytes trail ++ NL :: r)) (hpf : buf.size - s.ofs < pf) :
    ∃ s', readDeps pf pf s acc = .ok (acc ++ deps.map (·.2)) s' ∧ G buf s' ∧ s.ofs ≤ s'.ofs ∧
      Rest buf s'.ofs (NL :: r) :=
  readDeps_spec buf pf deps hwf trail NL r pf s acc g (Or.inl rfl) hr hpf hpf

/-- One iteration of `parse`'s main loop over an entry as written, whatever ends its line: a
    newline, or the end of the file (`D = NUL`: the last line has no final newline). -/
theorem entry_spec (buf : Array UInt8) (pf : Nat) (hpf : buf.size < pf) (e : FEntry) (hwfe : EntryWF e)
    (D : UInt8) (R : Bytes) (hD : D = NL ∨ D = NUL) (fuel : Nat) (s : Scanner) (acc : Entries) (pre : Bytes)
    (hpre : blankOk pre) (g : G buf s) (hr : Rest buf s.ofs (pre ++ (e.blank ++ entryCore e ++ D :: R)))
    (hf : buf.size - s.ofs < fuel + 1) :
    ∃ s5, G buf s5 ∧ Rest buf s5.ofs (D :: R) ∧ s.ofs < s5.ofs ∧
      parseLoop (fuel + 1) pf s acc = parseLoop fuel pf s5 (addEntry acc e.target (e.deps.map (·.2))) := by
  obtain ⟨hbl, htn, hts, hcol, hdw, hglued⟩ := hwfe
  have hlt := g.lt
  have hDsp : D ≠ SP := by rcases hD with rfl | rfl <;> decide
  obtain ⟨c0, t', htc⟩ : ∃ c0 t', e.target = c0 :: t' := by
    cases h : e.target with
    | nil => exact absurd h htn
    | cons c0 t' => exact ⟨c0, t', rfl⟩
  have hc0 := hts c0 (by rw [htc]; simp)
  -- everything after the blank prefix
  have hb : blankOk (pre ++ e.blank) := by
    intro c hc; simp at hc; rcases hc with h | h
    · exact hpre c h
    · exact hbl c h
  have hr0 : Rest buf s.ofs ((pre ++ e.blank) ++ c0 :: (t' ++ List.replicate e.colonSp SP ++ [COLON] ++
      depsBytes e.deps ++ gapBytes e.trail ++ D :: R)) := by
    simpa [entryCore, htc, List.append_assoc] using hr
  obtain ⟨s1, h1, g1, ho1⟩ := skipBlank_spec buf (pre ++ e.blank) hb pf s c0 _ g hr0 hc0.2.1 hc0.2.2.1 (by omega)
  have hr1 := Rest.append (a := pre ++ e.blank) hr0
  rw [← ho1] at hr1
  have hlt1 := g1.lt
  -- the continuation after the colon is the same in both spellings
  by_cases hcs : e.colonSp = 0
  · -- `target:` glued: the token read is `target:`
    have htok : ∀ c ∈ e.target ++ [COLON], safe c := by
      intro c hc; simp at hc; rcases hc with h | h
      · exact hts c h
      · subst h; exact colon_safe
    have hrest : Rest buf s1.ofs (gapBytes [] ++ (e.target ++ [COLON]) ++
        (depsBytes e.deps ++ gapBytes e.trail ++ D :: R)) := by
      simpa [gapBytes, htc, hcs, List.append_assoc] using hr1
    have hterm : Term (depsBytes e.deps ++ gapBytes e.trail ++ D :: R) := by
      cases hd : e.deps with
      | nil =>
        simp only [depsBytes, List.nil_append]
        cases e.trail with
        | nil => rcases hD with rfl | rfl <;> simp [gapBytes, Term]
        | cons t ts => exact term_gap (t :: ts) _ (by simp)
      | cons d ds =>
        obtain ⟨gs, n⟩ := d
        have := hglued hcs (gs, n) (by rw [hd]; simp)
        simp only [depsBytes, List.append_assoc]
        exact term_gap gs _ this
    obtain ⟨s2, h2, g2, ho2, hr2⟩ := readPath_some buf [] (e.target ++ [COLON]) _ (by simp) htok pf s1 g1 hrest hterm
      (by omega)
    -- the scanner's skip_spaces eats the leading spaces of what follows
    have hlt2 := g2.lt
    obtain ⟨k, deps', trail', hsplit, hhead, hwf', hnames⟩ :
        ∃ (k : Nat) (deps' : List (List GapItem × Bytes)) (trail' : List GapItem),
          depsBytes e.deps ++ gapBytes e.trail = List.replicate k SP ++ (depsBytes deps' ++ gapBytes trail') ∧
          (∃ c' x', depsBytes deps' ++ gapBytes trail' ++ D :: R = c' :: x' ∧ c' ≠ SP) ∧
          DepsWF deps' ∧ deps'.map (·.2) = e.deps.map (·.2) := by
      cases hd : e.deps with
      | nil =>
        refine ⟨leadSp e.trail, [], dropSp e.trail, by simp [depsBytes, gapBytes_split e.trail], ?_, ⟨by simp, by simp⟩, rfl⟩
        simpa [depsBytes] using dropSp_head e.trail D R hDsp
      | cons d ds =>
        obtain ⟨gs, n⟩ := d
        have hdn := hdw.1 (gs, n) (by rw [hd]; simp)
        obtain ⟨cn, n', hn⟩ : ∃ cn n', n = cn :: n' := by
          cases n with
          | nil => exact absurd rfl hdn.1
          | cons cn n' => exact ⟨cn, n', rfl⟩
        refine ⟨leadSp gs, (dropSp gs, n) :: ds, e.trail, ?_, ?_, ?_, by simp⟩
        · simp only [depsBytes, List.append_assoc]
          rw [gapBytes_split gs]; simp [List.append_assoc]
        · have hcn : cn ≠ SP := (hdn.2 cn (by rw [hn]; simp)).2.1
          obtain ⟨c', x', he, hne⟩ := dropSp_head gs cn (n' ++ (depsBytes ds ++ gapBytes e.trail ++ D :: R)) hcn
          exact ⟨c', x', by simpa [depsBytes, hn, List.append_assoc] using he, hne⟩
        · rw [hd] at hdw
          exact ⟨fun x hx => by
            simp at hx; rcases hx with rfl | hx
            · exact hdn
            · exact hdw.1 x (by simp [hx]), fun x hx => hdw.2 x (by simpa using hx)⟩
    obtain ⟨c', x', hcx, hcne⟩ := hhead
    have hr2' : Rest buf s2.ofs (List.replicate k SP ++ c' :: x') := by
      have : depsBytes e.deps ++ gapBytes e.trail ++ D :: R
          = List.replicate k SP ++ (depsBytes deps' ++ gapBytes trail' ++ D :: R) := by
        rw [hsplit]; simp [List.append_assoc]
      rw [this, hcx] at hr2; exact hr2
    obtain ⟨s3, h3, g3, ho3⟩ := scanner_skipSpaces_spec buf k pf s2 c' x' g2 hr2' hcne (by omega)
    have hr3 : Rest buf s3.ofs (depsBytes deps' ++ gapBytes trail' ++ D :: R) := by
      have := Rest.append (a := List.replicate k SP) hr2'
      rw [hcx.symm] at this
      rw [ho3]; simpa using this
    have hlt3 := g3.lt
    obtain ⟨s5, h5, g5, hle5, hr5⟩ := readDeps_spec buf pf deps' hwf' trail' D R pf s3 [] g3 hD hr3 (by omega) (by omega)
    have hpos : 0 < (e.target ++ [COLON]).length := by simp
    refine ⟨s5, g5, by simpa using hr5, by simp [gapBytes] at ho2; omega, ?_⟩
    conv => lhs; unfold parseLoop
    rw [h1]
    simp only []
    rw [h2]
    simp only []
    rw [h3]
    simp only [stripColon_glued]
    rw [h5]
    simp only [List.nil_append, hnames]
  · -- spaces before the colon: the token read is `target`
    have hcpos : 0 < e.colonSp := by omega
    have hrest : Rest buf s1.ofs (gapBytes [] ++ e.target ++
        (List.replicate e.colonSp SP ++ COLON :: (depsBytes e.deps ++ gapBytes e.trail ++
          D :: R))) := by
      simpa [gapBytes, htc, List.append_assoc] using hr1
    have hterm : Term (List.replicate e.colonSp SP ++ COLON :: (depsBytes e.deps ++ gapBytes e.trail ++
          D :: R)) := by
      obtain ⟨j, hj⟩ : ∃ j, e.colonSp = j + 1 := ⟨e.colonSp - 1, by omega⟩
      rw [hj]; simp [List.replicate_succ, Term]
    obtain ⟨s2, h2, g2, ho2, hr2⟩ := readPath_some buf [] e.target _ htn hts pf s1 g1 hrest hterm (by omega)
    have hlt2 := g2.lt
    obtain ⟨s3, h3, g3, ho3⟩ := scanner_skipSpaces_spec buf e.colonSp pf s2 COLON _ g2 hr2 (by decide) (by omega)
    have hr3 := Rest.append (a := List.replicate e.colonSp SP) hr2
    rw [List.length_replicate, ← ho3] at hr3
    -- expect ':'
    obtain ⟨c4, s4, hc4, hrd4, w4, ho4, hn4⟩ := read_ok g3.w g3.lt
    have hc4e : c4 = COLON := by rw [hr3.head] at hc4; exact (Option.some.inj hc4).symm
    subst hc4e
    have g4 : G buf s4 := ⟨w4, hn4 (by decide), by rw [ho4]; exact ncr_after hc4 (by decide)⟩
    have hex : s3.expect COLON = .ok () s4 := by
      unfold expect; rw [hrd4]; simp
    have hr4 : Rest buf s4.ofs (depsBytes e.deps ++ gapBytes e.trail ++ D :: R) := by
      rw [ho4]; exact hr3.tail
    have hlt4 := g4.lt
    obtain ⟨s5, h5, g5, hle5, hr5⟩ := readDeps_spec buf pf e.deps hdw e.trail D R pf s4 [] g4 hD hr4 (by omega) (by omega)
    have hpos : 0 < e.target.length := by rw [htc]; simp
    refine ⟨s5, g5, by simpa using hr5, by simp [gapBytes] at ho2; omega, ?_⟩
    conv => lhs; unfold parseLoop
    rw [h1]
    simp only []
    rw [h2]
    simp only []
    rw [h3]
    simp only [stripColon_none e.target (hcol hcpos)]
    rw [hex]
    simp only []
    rw [h5]
    simp only [List.nil_append]

/-- The end of the file: only blank space left. -/
theorem end_spec (buf : Array UInt8) (pf : Nat) (hpf : buf.size < pf) (eb : Bytes) (heb : blankOk eb)
    (fuel : Nat) (s : Scanner) (acc : Entries) (pre : Bytes) (hpre : blankOk pre) (g : G buf s)
    (hr : Rest buf s.ofs (pre ++ (eb ++ [NUL]))) (hf : buf.size - s.ofs < fuel) :
    ∃ s', parseLoop fuel pf s acc = .ok acc s' ∧ G buf s' ∧ Rest buf s'.ofs [NUL] := by
  cases fuel with
  | zero => have := g.lt; omega
  | succ fuel =>
    have hb : blankOk (pre ++ eb) := by
      intro c hc; simp at hc; rcases hc with h | h
      · exact hpre c h
      · exact heb c h
    have hlt := g.lt
    obtain ⟨s1, h1, g1, ho1⟩ := skipBlank_spec buf (pre ++ eb) hb pf s NUL [] g (by simpa [List.append_assoc] using hr)
      (by decide) (by decide) (by omega)
    have hr1 : Rest buf s1.ofs ([] ++ NUL :: []) := by
      rw [ho1]; exact Rest.append (a := pre ++ eb) (by simpa [List.append_assoc] using hr)
    obtain ⟨s2, h2, g2, ho2, hr2⟩ := readPath_none buf [] NUL [] (Or.inr rfl) pf s1 g1 hr1 (by have := g1.lt; omega)
    refine ⟨s2, ?_, g2, hr2⟩
    unfold parseLoop
    rw [h1]
    simp only []
    rw [h2]

/-- The main loop over entries as written, followed by any tail `T` on which the loop is known to
    compute `F` (the end of the file, or a last entry without a final newline). -/
theorem parseLoop_spec_gen (buf : Array UInt8) (pf : Nat) (hpf : buf.size < pf) (T : Bytes) (F : Entries → Entries)
    (HT : ∀ (fuel : Nat) (s : Scanner) (acc : Entries) (pre : Bytes), blankOk pre → G buf s →
      Rest buf s.ofs (pre ++ T) → buf.size - s.ofs < fuel →
      ∃ s', parseLoop fuel pf s acc = .ok (F acc) s' ∧ G buf s' ∧ Rest buf s'.ofs [NUL])
    (es : List FEntry) : (∀ e ∈ es, EntryWF e) → ∀ (fuel : Nat) (s : Scanner) (acc : Entries) (pre : Bytes),
    blankOk pre → G buf s → Rest buf s.ofs (pre ++ bodyBytes es T) → buf.size - s.ofs < fuel →
    ∃ s', parseLoop fuel pf s acc = .ok (F ((entriesOf es).foldl (fun a e => addEntry a e.1 e.2) acc)) s' ∧
      G buf s' ∧ Rest buf s'.ofs [NUL] := by
  induction es with
  | nil =>
    intro _ fuel s acc pre hpre g hr hf
    simp only [bodyBytes] at hr
    simpa [entriesOf] using HT fuel s acc pre hpre g hr hf
  | cons e es ih =>
    intro hwf fuel s acc pre hpre g hr hf
    cases fuel with
    | zero => have := g.lt; omega
    | succ fuel =>
      simp only [bodyBytes] at hr
      obtain ⟨s5, g5, hr5, hlt5, heq⟩ := entry_spec buf pf hpf e (hwf e (by simp)) NL (bodyBytes es T)
        (Or.inl rfl) fuel s acc pre hpre g hr hf
      obtain ⟨s', h', g', hr'⟩ := ih (fun x hx => hwf x (by simp [hx])) fuel s5
        (addEntry acc e.target (e.deps.map (·.2))) [NL] (by intro c hc; simp at hc; exact Or.inr hc) g5
        (by simpa using hr5) (by have := g.lt; omega)
      refine ⟨s', ?_, g', hr'⟩
      rw [heq, h']
      simp [entriesOf]

theorem parseLoop_spec (buf : Array UInt8) (pf : Nat) (hpf : buf.size < pf) (eb : Bytes) (heb : blankOk eb)
    (es : List FEntry) : (∀ e ∈ es, EntryWF e) → ∀ (fuel : Nat) (s : Scanner) (acc : Entries) (pre : Bytes),
    blankOk pre → G buf s → Rest buf s.ofs (pre ++ bodyBytes es (eb ++ [NUL])) → buf.size - s.ofs < fuel →
    ∃ s', parseLoop fuel pf s acc = .ok ((entriesOf es).foldl (fun a e => addEntry a e.1 e.2) acc) s' ∧
      G buf s' ∧ Rest buf s'.ofs [NUL] :=
  parseLoop_spec_gen buf pf hpf (eb ++ [NUL]) id
    (fun fuel s acc pre hpre g hr hf => end_spec buf pf hpf eb heb fuel s acc pre hpre g hr hf) es

/-- A last entry that the file ends in, with no final newline. -/
theorem lastEntry_spec (buf : Array UInt8) (pf : Nat) (hpf : buf.size < pf) (e : FEntry) (hwfe : EntryWF e)
    (fuel : Nat) (s : Scanner) (acc : Entries) (pre : Bytes) (hpre : blankOk pre) (g : G buf s)
    (hr : Rest buf s.ofs (pre ++ (e.blank ++ entryCore e ++ [NUL]))) (hf : buf.size - s.ofs < fuel) :
    ∃ s', parseLoop fuel pf s acc = .ok (addEntry acc e.target (e.deps.map (·.2))) s' ∧ G buf s' ∧
      Rest buf s'.ofs [NUL] := by
  cases fuel with
  | zero => have := g.lt; omega
  | succ fuel =>
    obtain ⟨s5, g5, hr5, hlt5, heq⟩ := entry_spec buf pf hpf e hwfe NUL [] (Or.inr rfl) fuel s acc pre hpre g hr hf
    obtain ⟨s', h', g', hr'⟩ := end_spec buf pf hpf [] (fun c hc => by cases hc) fuel s5
      (addEntry acc e.target (e.deps.map (·.2))) [] (fun c hc => by cases hc) g5 (by simpa using hr5)
      (by have := g.lt; omega)
    exact ⟨s', by rw [heq, h'], g', hr'⟩

/-- **`depfile::parse` reads a depfile as the compiler wrote it**: for every list of entries
    `target: prereq ...` — any number of them, targets and prerequisites any non-empty runs of path
    bytes (colons and other punctuation included), any number of spaces before the colon, any gap
    of spaces and backslash-newline continuations before each prerequisite and after the last one,
    any blank space (spaces, empty lines) before, between and after the entries — the parser
    returns exactly those targets with exactly those prerequisites, in order (repeated targets
    merged by `addEntry`). -/
theorem parse_spec (es : List FEntry) (hwf : ∀ e ∈ es, EntryWF e) (eb : Bytes) (heb : blankOk eb) :
    ∃ s, parse (bodyBytes es eb) =
      .ok ((entriesOf es).foldl (fun a e => addEntry a e.1 e.2) []) s := by
  unfold parse
  simp only []
  have hbuf : bodyBytes es eb ++ [NUL] = bodyBytes es (eb ++ [NUL]) := bodyBytes_append es eb [NUL]
  have hsz : (bodyBytes es eb ++ [NUL]).toArray.size = (bodyBytes es eb).length + 1 := by simp
  have hlast : (bodyBytes es eb ++ [NUL]).toArray[(bodyBytes es eb ++ [NUL]).toArray.size - 1]? = some NUL := by
    rw [hsz]; simp
  have hnew : Scanner.new (bodyBytes es eb ++ [NUL]).toArray = .ok ⟨(bodyBytes es eb ++ [NUL]).toArray, 0, 1⟩ := by
    unfold Scanner.new
    have : (bodyBytes es eb ++ [NUL]).toArray.back? = some NUL := by rw [Array.back?]; exact hlast
    simp [this]
  rw [hnew]
  simp only []
  have g0 : G (bodyBytes es eb ++ [NUL]).toArray ⟨(bodyBytes es eb ++ [NUL]).toArray, 0, 1⟩ :=
    ⟨⟨rfl, by rw [hsz]; omega, hlast, by show 0 ≤ _; omega, rfl⟩, by show 0 < _; rw [hsz]; omega,
     fun hx => by have := hx.2.1; exact absurd this (by show ¬ 0 < 0; omega)⟩
  have hr0 : Rest (bodyBytes es eb ++ [NUL]).toArray 0 ([] ++ bodyBytes es (eb ++ [NUL])) := by
    rw [List.nil_append, ← hbuf]; exact rest_start _
  obtain ⟨s1, h1, g1, hr1⟩ := parseLoop_spec (bodyBytes es eb ++ [NUL]).toArray
    ((bodyBytes es eb ++ [NUL]).toArray.size + 1) (by omega) eb heb es hwf
    ((bodyBytes es eb ++ [NUL]).toArray.size + 1) ⟨(bodyBytes es eb ++ [NUL]).toArray, 0, 1⟩ [] []
    (by intro c hc; cases hc) g0 hr0 (by show _ - 0 < _; omega)
  rw [h1]
  simp only []
  obtain ⟨c, s2, hc, hrd, w2, ho, hn⟩ := read_ok g1.w g1.lt
  have hcn : c = NUL := by rw [hr1.head] at hc; exact (Option.some.inj hc).symm
  subst hcn
  have hex : s1.expect NUL = .ok () s2 := by
    unfold expect; rw [hrd]; simp
  rw [hex]
  exact ⟨s2, rfl⟩

/-- **... also when the last line has no final newline**: the same for a depfile whose last entry
    is followed directly by the end of the file (compilers and hand-written rules both produce
    this; n2's own `test_parse_without_final_newline`). -/
theorem parse_spec_no_final_newline (es : List FEntry) (hwf : ∀ e ∈ es, EntryWF e) (last : FEntry)
    (hl : EntryWF last) :
    ∃ s, parse (bodyBytes es (last.blank ++ entryCore last)) =
      .ok (addEntry ((entriesOf es).foldl (fun a e => addEntry a e.1 e.2) []) last.target (last.deps.map (·.2))) s := by
  unfold parse
  simp only []
  have hbuf : bodyBytes es (last.blank ++ entryCore last) ++ [NUL] = bodyBytes es (last.blank ++ entryCore last ++ [NUL]) :=
    bodyBytes_append es _ [NUL]
  generalize hB : bodyBytes es (last.blank ++ entryCore last) = B at hbuf
  have hsz : (B ++ [NUL]).toArray.size = B.length + 1 := by simp
  have hlast : (B ++ [NUL]).toArray[(B ++ [NUL]).toArray.size - 1]? = some NUL := by
    rw [hsz]; simp
  have hnew : Scanner.new (B ++ [NUL]).toArray = .ok ⟨(B ++ [NUL]).toArray, 0, 1⟩ := by
    unfold Scanner.new
    have : (B ++ [NUL]).toArray.back? = some NUL := by rw [Array.back?]; exact hlast
    simp [this]
  rw [hnew]
  simp only []
  have g0 : G (B ++ [NUL]).toArray ⟨(B ++ [NUL]).toArray, 0, 1⟩ :=
    ⟨⟨rfl, by rw [hsz]; omega, hlast, by show 0 ≤ _; omega, rfl⟩, by show 0 < _; rw [hsz]; omega,
     fun hx => by have := hx.2.1; exact absurd this (by show ¬ 0 < 0; omega)⟩
  have hr0 : Rest (B ++ [NUL]).toArray 0 ([] ++ bodyBytes es (last.blank ++ entryCore last ++ [NUL])) := by
    rw [List.nil_append, ← hbuf]; exact rest_start _
  obtain ⟨s1, h1, g1, hr1⟩ := parseLoop_spec_gen (B ++ [NUL]).toArray ((B ++ [NUL]).toArray.size + 1) (by omega)
    (last.blank ++ entryCore last ++ [NUL]) (fun a => addEntry a last.target (last.deps.map (·.2)))
    (fun fuel s acc pre hpre g hr hf =>
      lastEntry_spec (B ++ [NUL]).toArray ((B ++ [NUL]).toArray.size + 1) (by omega) last hl fuel s acc pre hpre g
        (by simpa [List.append_assoc] using hr) hf)
    es hwf ((B ++ [NUL]).toArray.size + 1) ⟨(B ++ [NUL]).toArray, 0, 1⟩ [] []
    (by intro c hc; cases hc) g0 hr0 (by show _ - 0 < _; omega)
  rw [h1]
  simp only []
  obtain ⟨c, s2, hc, hrd, w2, ho, hn⟩ := read_ok g1.w g1.lt
  have hcn : c = NUL := by rw [hr1.head] at hc; exact (Option.some.inj hc).symm
  subst hcn
  have hex : s1.expect NUL = .ok () s2 := by
    unfold expect; rw [hrd]; simp
  rw [hex]
  exact ⟨s2, rfl⟩

end N2V.Depfile
