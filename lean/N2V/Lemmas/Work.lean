import N2V.Model.Work
namespace N2V.Work
open N2V N2V.Load

@[simp] theorem statFile_log (e : Env) (f : Nat) : (statFile e f).2.log = e.log := rfl
@[simp] theorem statFile_g (e : Env) (f : Nat) : (statFile e f).2.g = e.g := rfl
@[simp] theorem statFile_disc (e : Env) (f : Nat) : (statFile e f).2.disc = e.disc := rfl
@[simp] theorem statFile_fs (e : Env) (f : Nat) : (statFile e f).2.fs = e.fs := rfl
@[simp] theorem statFile_hashes (e : Env) (f : Nat) : (statFile e f).2.hashes = e.hashes := rfl

/-- What stat()ing a list of files leaves unchanged. -/
structure SameButCache (a b : Env) : Prop where
  log : b.log = a.log
  g : b.g = a.g
  disc : b.disc = a.disc
  fs : b.fs = a.fs
  hashes : b.hashes = a.hashes
  clock : b.clock = a.clock

theorem SameButCache.refl (a : Env) : SameButCache a a := ⟨rfl, rfl, rfl, rfl, rfl, rfl⟩
theorem SameButCache.trans {a b c : Env} (h1 : SameButCache a b) (h2 : SameButCache b c) : SameButCache a c :=
  ⟨h2.log.trans h1.log, h2.g.trans h1.g, h2.disc.trans h1.disc, h2.fs.trans h1.fs,
   h2.hashes.trans h1.hashes, h2.clock.trans h1.clock⟩

theorem statFile_same (e : Env) (f : Nat) : SameButCache e (statFile e f).2 := ⟨rfl, rfl, rfl, rfl, rfl, rfl⟩

theorem statAllOutputs_same (e : Env) (outs : List Nat) : SameButCache e (statAllOutputs e outs).2 := by
  unfold statAllOutputs
  have key : ∀ (l : List Nat) (acc : Option Nat × Env), SameButCache e acc.2 →
      SameButCache e (l.foldl (fun (acc : Option Nat × Env) o =>
        let (m, e') := statFile acc.2 o
        (if m.isNone && acc.1.isNone then some o else acc.1, e')) acc).2 := by
    intro l
    induction l with
    | nil => intro acc h; exact h
    | cons o l ih =>
      intro acc h
      simp only [List.foldl_cons]
      apply ih
      exact h.trans (statFile_same _ _)
  exact key outs (none, e) (SameButCache.refl e)

theorem statFold_same (e : Env) (l : List Nat) :
    SameButCache e (l.foldl (fun (acc : Bool × Env) f =>
      let (m, e') := statFile acc.2 f
      (acc.1 || m.isNone, e')) (false, e)).2 := by
  have key : ∀ (l : List Nat) (acc : Bool × Env), SameButCache e acc.2 →
      SameButCache e (l.foldl (fun (acc : Bool × Env) f =>
        let (m, e') := statFile acc.2 f
        (acc.1 || m.isNone, e')) acc).2 := by
    intro l
    induction l with
    | nil => intro acc h; exact h
    | cons o l ih =>
      intro acc h
      simp only [List.foldl_cons]
      apply ih
      exact h.trans (statFile_same _ _)
  exact key l (false, e) (SameButCache.refl e)

theorem ensureInputs_same (e : Env) (l : List Nat) (r : Option Nat) (e' : Env)
    (h : ensureInputs e l = .ok (r, e')) : SameButCache e e' := by
  induction l generalizing e with
  | nil => unfold ensureInputs at h; cases h; exact SameButCache.refl _
  | cons f fs ih =>
    unfold ensureInputs at h
    split at h
    · split at h
      · cases h; exact SameButCache.refl _
      · exact ih e h
    · split at h
      · cases h
      · simp only at h
        split at h
        · cases h; exact statFile_same e f
        · exact (statFile_same e f).trans (ih _ h)

/-- Interning names touches the graph's file table only (names of existing files keep their
    ids), never the log, the tree, the discovered lists or the hashes. -/
theorem keepDeps_frame (dirtying : List Nat) (ns : List Bytes) (e : Env) (acc : List Nat) :
    (keepDeps e dirtying ns acc).1.log = e.log ∧ (keepDeps e dirtying ns acc).1.fs = e.fs ∧
    (keepDeps e dirtying ns acc).1.disc = e.disc ∧ (keepDeps e dirtying ns acc).1.hashes = e.hashes ∧
    (keepDeps e dirtying ns acc).1.cache = e.cache ∧ (keepDeps e dirtying ns acc).1.clock = e.clock := by
  induction ns generalizing e acc with
  | nil => exact ⟨rfl, rfl, rfl, rfl, rfl, rfl⟩
  | cons n ns ih =>
    unfold keepDeps
    split
    · exact ih e acc
    · split
      · rename_i c hc
        by_cases hcond : (acc.contains (intern e c).2 || dirtying.contains (intern e c).2) = true
        · rw [if_pos hcond]
          exact ih (intern e c).1 acc
        · rw [if_neg hcond]
          exact ih (intern e c).1 (acc ++ [(intern e c).2])
      · exact ih e acc

theorem filesMissing_same (e : Env) (bm : BuildM) (b : Nat) : SameButCache e (filesMissing e bm b).1 := by
  unfold filesMissing
  split
  · exact SameButCache.refl e
  · rename_i missing e1 h1; exact ensureInputs_same _ _ _ _ h1
  · rename_i e1 h1
    have s1 := ensureInputs_same _ _ _ _ h1
    split
    · exact s1
    · rename_i m e2 h2; exact s1.trans (ensureInputs_same _ _ _ _ h2)
    · rename_i e2 h2
      exact (s1.trans (ensureInputs_same _ _ _ _ h2)).trans (statAllOutputs_same e2 bm.outs)

end N2V.Work
