/-
  Every trace the scheduler model produces satisfies the trace specification (TraceSpec.lean):
  each event is justified by the history before it.  `TInv` is the link between the ghost trace
  and the state; it is carried along every step next to `Inv`.
-/
import N2V.TraceSpec
import N2V.Lemmas.SchedStep
namespace N2V.Sched

structure TInv (g : Graph) (par : Nat) (shape : List (Bytes × Nat)) (s : S) : Prop where
  st : stOf s.trace = s.st
  ok : okTrace g par shape s.trace = true
  shape : poolShape s.pools = shape

/-- Nothing but `st`, `trace` and the pools' names/depths matters. -/
theorem TInv.of_same {g : Graph} {par : Nat} {shape : List (Bytes × Nat)} {s s' : S}
    (ti : TInv g par shape s) (h1 : s'.st = s.st) (h2 : s'.trace = s.trace)
    (h3 : poolShape s'.pools = poolShape s.pools) : TInv g par shape s' :=
  ⟨by rw [h2, h1]; exact ti.st, by rw [h2]; exact ti.ok, by rw [h3]; exact ti.shape⟩

theorem set_trace {g : Graph} {s s' : S} {id : Nat} {new : St} (h : set g s id new = .ok s') :
    s'.trace = Ev.set id (s.st id) new (countsList s'.counts) s'.pending :: s.trace := by
  unfold set at h
  simp only at h
  split at h
  · cases h
  · split at h
    · cases h
    · cases h; rfl

theorem modPool_shape (ps ps' : List Pool) (name : Bytes) (f : Pool → Pool)
    (hf : ∀ p, (f p).name = p.name ∧ (f p).depth = p.depth) (h : modPool ps name f = some ps') :
    poolShape ps' = poolShape ps := by
  induction ps generalizing ps' with
  | nil => simp [modPool] at h
  | cons p rest ih =>
    unfold modPool at h
    split at h
    · cases h; simp [poolShape, hf]
    · cases hm : modPool rest name f with
      | none => simp [hm] at h
      | some r =>
        simp [hm] at h
        subst h
        have := ih r hm
        simp [poolShape] at this ⊢
        exact this

theorem set_shape {g : Graph} {s s' : S} {id : Nat} {new : St} (h : set g s id new = .ok s') :
    poolShape s'.pools = poolShape s.pools := by
  obtain ⟨ps1, ps2, h1, h2, -, -, -, -, hp, -⟩ := set_spec h
  rw [hp]
  have e1 : poolShape ps1 = poolShape s.pools := by
    split at h1
    · exact modPool_shape _ _ _ decRunning (fun p => ⟨rfl, rfl⟩) h1
    · cases h1; rfl
  have e2 : poolShape ps2 = poolShape ps1 := by
    split at h2
    · exact modPool_shape _ _ _ incRunning (fun p => ⟨rfl, rfl⟩) h2
    · cases h2; rfl
  rw [e2, e1]

theorem countsList_exact {g : Graph} {s : S} (core : InvCore g s) :
    countsList s.counts = exactCounts g s.st := by
  have h := core.counts
  have e1 := h .want (by simp)
  have e2 := h .ready (by simp)
  have e3 := h .queued (by simp)
  have e4 := h .running (by simp)
  have e5 := h .done (by simp)
  have e6 := h .failed (by simp)
  simp only [Counts.get] at e1 e2 e3 e4 e5 e6
  simp [countsList, exactCounts, stateList, e1, e2, e3, e4, e5, e6]

theorem directDone_of {g : Graph} {st : Nat → St} {b : Nat}
    (h : ∀ f ∈ (g.build b).ordering, ∀ p, g.producer f = some p → st p = .done) :
    directDone g st b = true := by
  unfold directDone
  rw [List.all_eq_true]
  intro f hf
  cases hp : g.producer f with
  | none => rfl
  | some p => simp [h f hf p hp]

/-- **One `set`**: the event it emits is justified, given the invariant core AFTER it. -/
theorem set_tinv {g : Graph} {par : Nat} {shape : List (Bytes × Nat)} {s s' : S} {id : Nat} {new : St}
    (ti : TInv g par shape s) (core' : InvCore g s') (h : set g s id new = .ok s')
    (hid : id < g.nBuilds) (hlegal : legal (s.st id) new = true) : TInv g par shape s' := by
  obtain ⟨_, _, -, -, hst, -⟩ := set_spec h
  have htr := set_trace h
  refine ⟨?_, ?_, ?_⟩
  · rw [htr]; simp only [stOf]; rw [ti.st, hst]
  · rw [htr]
    simp only [okTrace, okEv, Bool.and_eq_true, decide_eq_true_eq, beq_iff_eq, Bool.or_eq_true, bne_iff_ne]
    refine ⟨⟨⟨⟨⟨⟨hid, ?_⟩, hlegal⟩, ?_⟩, ?_⟩, ?_⟩, ti.ok⟩
    · rw [ti.st]
    · rw [ti.st, ← hst]; exact countsList_exact core'
    · rw [ti.st, ← hst]; exact core'.pending
    · by_cases hn : new = .ready
      · right
        rw [ti.st]
        apply directDone_of
        intro f hf p hp
        have hg : gated (s'.st id) := by rw [hst]; simp [hn, gated]
        have hd := core'.ordered id hg f hf p hp
        rw [hst] at hd
        by_cases e : p = id
        · subst e; simp [hn] at hd
        · rwa [upd_other _ _ _ _ e] at hd
      · left; exact hn
  · rw [set_shape h]; exact ti.shape

/-- The `update` event at the head of each loop iteration. -/
theorem update_tinv {g : Graph} {par : Nat} {shape : List (Bytes × Nat)} {s : S}
    (core : InvCore g s) (ti : TInv g par shape s) :
    TInv g par shape { s with trace := Ev.update (countsList s.counts) :: s.trace } := by
  refine ⟨?_, ?_, ti.shape⟩
  · simp only [stOf]; exact ti.st
  · simp only [okTrace, okEv, Bool.and_eq_true, beq_iff_eq]
    exact ⟨by rw [ti.st]; exact countsList_exact core, ti.ok⟩

/-- The `finish` event (the runner reports a command that was running). -/
theorem finish_tinv {g : Graph} {par : Nat} {shape : List (Bytes × Nat)} {s : S} {id : Nat} (t : Term)
    (ti : TInv g par shape s) (hst : s.st id = .running) :
    TInv g par shape { s with running := s.running - 1, trace := Ev.finish id t :: s.trace } := by
  refine ⟨?_, ?_, ti.shape⟩
  · simp only [stOf]; exact ti.st
  · simp only [okTrace, okEv, Bool.and_eq_true, beq_iff_eq]
    exact ⟨by rw [ti.st]; exact hst, ti.ok⟩

/-- The promotion loop of `ready_dependents`, with the trace. -/
theorem promote_inv2 {g : Graph} {par : Nat} {shape : List (Bytes × Nat)} (l : List Nat) (s s' : S)
    (inv : Inv g par s) (ti : TInv g par shape s) (hl : l.Nodup)
    (hw : ∀ d ∈ l, s.st d = .want ∧ d < g.nBuilds ∧
      ∀ f ∈ (g.build d).ordering, ∀ p, g.producer f = some p → s.st p = .done)
    (h : promote g s l = .ok s') : Inv g par s' ∧ TInv g par shape s' := by
  induction l generalizing s with
  | nil => simp [promote] at h; rw [← h]; exact ⟨inv, ti⟩
  | cons d ds ih =>
    unfold promote at h
    split at h
    · rename_i s1 hs
      have hd := hw d (by simp)
      have hcore := set_core inv.toInvCore hs hd.2.1 (by simp) (by rw [hd.1]; simp)
        (by rw [hd.1]; simp) (by rw [hd.1]; simp) (fun _ => hd.2.2)
      have hlim := set_limits_same inv hs hd.2.1 (runDelta_zero (by rw [hd.1]; simp) (by simp))
      have inv1 : Inv g par s1 := { hcore with running := hlim.1, parBound := hlim.2.1, depthBound := hlim.2.2 }
      have ti1 := set_tinv ti hcore hs hd.2.1 (by rw [hd.1]; rfl)
      obtain ⟨_, _, -, -, hst, -⟩ := set_spec hs
      simp at hl
      apply ih s1 inv1 ti1 hl.2 _ h
      intro x hx
      have hxw := hw x (by simp [hx])
      have hne : x ≠ d := fun e => hl.1 (e ▸ hx)
      refine ⟨by rw [hst, upd_other _ _ _ _ hne]; exact hxw.1, hxw.2.1, ?_⟩
      intro f hf p hp
      have := hxw.2.2 f hf p hp
      have hpd : p ≠ d := by intro e; subst e; rw [hd.1] at this; cases this
      rw [hst, upd_other _ _ _ _ hpd]; exact this
    · rename_i hne; exact absurd h (hne s')

/-- `ready_dependents`, with the trace. -/
theorem readyDependents_tinv {g : Graph} {par : Nat} {shape : List (Bytes × Nat)} {s0 s' : S} {id : Nat}
    {perm : List Nat}
    (core : InvCore g s0) (ti : TInv g par shape s0) (hid : id < g.nBuilds)
    (hst : s0.st id = .ready ∨ s0.st id = .running)
    (hnotin : s0.st id = .ready → id ∉ s0.ready)
    (hrun : (s0.running : Int) = cnt g.nBuilds (fun b => s0.st b == .running) - (if s0.st id = .running then 1 else 0))
    (hpar : s0.running ≤ par)
    (hdepth : ∀ p ∈ s0.pools, p.depth > 0 → p.running ≤ p.depth)
    (h : readyDependents g s0 id perm = .ok s') : TInv g par shape s' := by
  unfold readyDependents at h
  split at h
  · rename_i s1 hs
    have hgated : gated (s0.st id) := by
      rcases hst with e | e <;> rw [e] <;> simp [gated]
    have hprev : s0.st id ≠ .done ∧ s0.st id ≠ .failed := by
      rcases hst with e | e <;> rw [e] <;> simp
    have core1 := set_core core hs hid (by simp) hprev hnotin
      (by intro e; rcases hst with e' | e' <;> rw [e'] at e <;> cases e)
      (fun _ => core.ordered id hgated)
    have ti1 := set_tinv ti core1 hs hid (by rcases hst with e | e <;> rw [e] <;> rfl)
    have hr := set_running hs hid
    obtain ⟨_, _, -, -, hst1, -, -, -, -, hrun1, -⟩ := set_spec hs
    have hpools := set_pools hs core.poolNames
    have inv1 : Inv g par s1 := by
      refine { core1 with running := ?_, parBound := ?_, depthBound := ?_ }
      · rw [hrun1]
        unfold runDelta at hr
        rcases hst with e | e <;> simp [e] at hr hrun <;> omega
      · rw [hrun1]; exact hpar
      · intro p' hp' hd
        rw [hpools] at hp'
        simp only [List.mem_map] at hp'
        obtain ⟨p, hp, rfl⟩ := hp'
        simp at hd
        have := hdepth p hp hd
        rw [bump_running, bump_depth]
        have hle : runDelta (s0.st id) .done ≤ 0 := by
          unfold runDelta; split <;> simp
        split <;> omega
    refine (promote_inv2 _ s1 s' inv1 ti1 (nodup_orderBy _ _ (nodup_dedup _)) ?_ h).2
    intro d hd
    have hm := mem_orderBy _ _ _ hd
    obtain ⟨hw, hrr⟩ := promotable_spec g s1 id d hm
    exact ⟨hw, core1.valid d (by rw [hw]; simp), recheckReady_sound g s1 d hrr⟩
  · rename_i hne; exact absurd h (hne s')

end N2V.Sched
