/-
  Every trace the scheduler model produces satisfies the trace specification (TraceSpec.lean):
  each event is justified by the history before it.  `TInv` is the link between the ghost trace
  and the state; it is carried along every step next to `Inv`.
-/
import N2V.TraceSpec
import N2V.Lemmas.SchedStep
namespace N2V.Sched

structure TInv (g : Graph) (par : Nat) (shape : List (Bytes × Nat)) (s : S) : Prop where
  st : stOf s.trace = s.st
  ok : okTrace g par shape s.trace = true
  shape : poolShape s.pools = shape

/-- Nothing but `st`, `trace` and the pools' names/depths matters. -/
theorem TInv.of_same {g : Graph} {par : Nat} {shape : List (Bytes × Nat)} {s s' : S}
    (ti : TInv g par shape s) (h1 : s'.st = s.st) (h2 : s'.trace = s.trace)
    (h3 : poolShape s'.pools = poolShape s.pools) : TInv g par shape s' :=
  ⟨by rw [h2, h1]; exact ti.st, by rw [h2]; exact ti.ok, by rw [h3]; exact ti.shape⟩

theorem set_trace {g : Graph} {s s' : S} {id : Nat} {new : St} (h : set g s id new = .ok s') :
    s'.trace = Ev.set id (s.st id) new (countsList s'.counts) s'.pending :: s.trace := by
  unfold set at h
  simp only at h
  split at h
  · cases h
  · split at h
    · cases h
    · cases h; rfl

theorem modPool_shape (ps ps' : List Pool) (name : Bytes) (f : Pool → Pool)
    (hf : ∀ p, (f p).name = p.name ∧ (f p).depth = p.depth) (h : modPool ps name f = some ps') :
    poolShape ps' = poolShape ps := by
  induction ps generalizing ps' with
  | nil => simp [modPool] at h
  | cons p rest ih =>
    unfold modPool at h
    split at h
    · cases h; simp [poolShape, hf]
    · cases hm : modPool rest name f with
      | none => simp [hm] at h
      | some r =>
        simp [hm] at h
        subst h
        have := ih r hm
        simp [poolShape] at this ⊢
        exact this

theorem set_shape {g : Graph} {s s' : S} {id : Nat} {new : St} (h : set g s id new = .ok s') :
    poolShape s'.pools = poolShape s.pools := by
  obtain ⟨ps1, ps2, h1, h2, -, -, -, -, hp, -⟩ := set_spec h
  rw [hp]
  have e1 : poolShape ps1 = poolShape s.pools := by
    split at h1
    · exact modPool_shape _ _ _ decRunning (fun p => ⟨rfl, rfl⟩) h1
    · cases h1; rfl
  have e2 : poolShape ps2 = poolShape ps1 := by
    split at h2
    · exact modPool_shape _ _ _ incRunning (fun p => ⟨rfl, rfl⟩) h2
    · cases h2; rfl
  rw [e2, e1]

/-- The facts about a state that justify the events emitted on entering it. -/
structure Exact (g : Graph) (s : S) : Prop where
  counts : ∀ x, x ≠ .unknown →
    s.counts.get x = cnt g.nBuilds (fun b => s.st b == x && !(g.build b).phony)
  pending : s.pending = cnt g.nBuilds (fun b => active (s.st b))
  ordered : ∀ b, gated (s.st b) →
    ∀ f ∈ (g.build b).ordering, ∀ p, g.producer f = some p → s.st p = .done

theorem InvCore.exact {g : Graph} {s : S} (c : InvCore g s) : Exact g s := ⟨c.counts, c.pending, c.ordered⟩

theorem Exact.of_same {g : Graph} {s s' : S} (h : Exact g s) (h1 : s'.st = s.st) (h2 : s'.counts = s.counts)
    (h3 : s'.pending = s.pending) : Exact g s' :=
  ⟨by rw [h1, h2]; exact h.counts, by rw [h1, h3]; exact h.pending, by rw [h1]; exact h.ordered⟩

theorem countsList_exact {g : Graph} {s : S} (core : Exact g s) :
    countsList s.counts = exactCounts g s.st := by
  have h := core.counts
  have e1 := h .want (by simp)
  have e2 := h .ready (by simp)
  have e3 := h .queued (by simp)
  have e4 := h .running (by simp)
  have e5 := h .done (by simp)
  have e6 := h .failed (by simp)
  simp only [Counts.get] at e1 e2 e3 e4 e5 e6
  simp [countsList, exactCounts, stateList, e1, e2, e3, e4, e5, e6]

theorem directDone_of {g : Graph} {st : Nat → St} {b : Nat}
    (h : ∀ f ∈ (g.build b).ordering, ∀ p, g.producer f = some p → st p = .done) :
    directDone g st b = true := by
  unfold directDone
  rw [List.all_eq_true]
  intro f hf
  cases hp : g.producer f with
  | none => rfl
  | some p => simp [h f hf p hp]

/-- **One `set`**: the event it emits is justified, given the invariant core AFTER it. -/
theorem set_tinv {g : Graph} {par : Nat} {shape : List (Bytes × Nat)} {s s' : S} {id : Nat} {new : St}
    (ti : TInv g par shape s) (core' : Exact g s') (h : set g s id new = .ok s')
    (hid : id < g.nBuilds) (hlegal : legal (s.st id) new = true)
    (hlim : new = .running → withinLimits g par shape s'.st = true) : TInv g par shape s' := by
  obtain ⟨_, _, -, -, hst, -⟩ := set_spec h
  have htr := set_trace h
  refine ⟨?_, ?_, ?_⟩
  · rw [htr]; simp only [stOf]; rw [ti.st, hst]
  · rw [htr]
    simp only [okTrace, okEv, Bool.and_eq_true, decide_eq_true_eq, beq_iff_eq, Bool.or_eq_true, bne_iff_ne]
    refine ⟨⟨⟨⟨⟨⟨⟨hid, ?_⟩, hlegal⟩, ?_⟩, ?_⟩, ?_⟩, ?_⟩, ti.ok⟩
    rotate_left 4
    · by_cases hn : new = .running
      · right; rw [ti.st, ← hst]; exact hlim hn
      · left; exact hn
    · rw [ti.st]
    · rw [ti.st, ← hst]; exact countsList_exact core'
    · rw [ti.st, ← hst]; exact core'.pending
    · by_cases hn : new = .ready
      · right
        rw [ti.st]
        apply directDone_of
        intro f hf p hp
        have hg : gated (s'.st id) := by rw [hst]; simp [hn, gated]
        have hd := core'.ordered id hg f hf p hp
        rw [hst] at hd
        by_cases e : p = id
        · subst e; simp [hn] at hd
        · rwa [upd_other _ _ _ _ e] at hd
      · left; exact hn
  · rw [set_shape h]; exact ti.shape

/-- The `update` event at the head of each loop iteration. -/
theorem update_tinv {g : Graph} {par : Nat} {shape : List (Bytes × Nat)} {s : S}
    (core : Exact g s) (ti : TInv g par shape s) :
    TInv g par shape { s with trace := Ev.update (countsList s.counts) :: s.trace } := by
  refine ⟨?_, ?_, ti.shape⟩
  · simp only [stOf]; exact ti.st
  · simp only [okTrace, okEv, Bool.and_eq_true, beq_iff_eq]
    exact ⟨by rw [ti.st]; exact countsList_exact core, ti.ok⟩

/-- The `finish` event (the runner reports a command that was running). -/
theorem finish_tinv {g : Graph} {par : Nat} {shape : List (Bytes × Nat)} {s : S} {id : Nat} (t : Term)
    (ti : TInv g par shape s) (hst : s.st id = .running) :
    TInv g par shape { s with running := s.running - 1, trace := Ev.finish id t :: s.trace } := by
  refine ⟨?_, ?_, ti.shape⟩
  · simp only [stOf]; exact ti.st
  · simp only [okTrace, okEv, Bool.and_eq_true, beq_iff_eq]
    exact ⟨by rw [ti.st]; exact hst, ti.ok⟩

/-- The promotion loop of `ready_dependents`, with the trace. -/
theorem promote_inv2 {g : Graph} {par : Nat} {shape : List (Bytes × Nat)} (l : List Nat) (s s' : S)
    (inv : Inv g par s) (ti : TInv g par shape s) (hl : l.Nodup)
    (hw : ∀ d ∈ l, s.st d = .want ∧ d < g.nBuilds ∧
      ∀ f ∈ (g.build d).ordering, ∀ p, g.producer f = some p → s.st p = .done)
    (h : promote g s l = .ok s') : Inv g par s' ∧ TInv g par shape s' := by
  induction l generalizing s with
  | nil => simp [promote] at h; rw [← h]; exact ⟨inv, ti⟩
  | cons d ds ih =>
    unfold promote at h
    split at h
    · rename_i s1 hs
      have hd := hw d (by simp)
      have hcore := set_core inv.toInvCore hs hd.2.1 (by simp) (by rw [hd.1]; simp)
        (by rw [hd.1]; simp) (by rw [hd.1]; simp) (fun _ => hd.2.2)
      have hlim := set_limits_same inv hs hd.2.1 (runDelta_zero (by rw [hd.1]; simp) (by simp))
      have inv1 : Inv g par s1 := { hcore with running := hlim.1, parBound := hlim.2.1, depthBound := hlim.2.2 }
      have ti1 := set_tinv ti hcore.exact hs hd.2.1 (by rw [hd.1]; rfl) (by intro e; cases e)
      obtain ⟨_, _, -, -, hst, -⟩ := set_spec hs
      simp at hl
      apply ih s1 inv1 ti1 hl.2 _ h
      intro x hx
      have hxw := hw x (by simp [hx])
      have hne : x ≠ d := fun e => hl.1 (e ▸ hx)
      refine ⟨by rw [hst, upd_other _ _ _ _ hne]; exact hxw.1, hxw.2.1, ?_⟩
      intro f hf p hp
      have := hxw.2.2 f hf p hp
      have hpd : p ≠ d := by intro e; subst e; rw [hd.1] at this; cases this
      rw [hst, upd_other _ _ _ _ hpd]; exact this
    · rename_i hne; exact absurd h (hne s')

/-- `ready_dependents`, with the trace. -/
theorem readyDependents_tinv {g : Graph} {par : Nat} {shape : List (Bytes × Nat)} {s0 s' : S} {id : Nat}
    {perm : List Nat}
    (core : InvCore g s0) (ti : TInv g par shape s0) (hid : id < g.nBuilds)
    (hst : s0.st id = .ready ∨ s0.st id = .running)
    (hnotin : s0.st id = .ready → id ∉ s0.ready)
    (hrun : (s0.running : Int) = cnt g.nBuilds (fun b => s0.st b == .running) - (if s0.st id = .running then 1 else 0))
    (hpar : s0.running ≤ par)
    (hdepth : ∀ p ∈ s0.pools, p.depth > 0 → p.running ≤ p.depth)
    (h : readyDependents g s0 id perm = .ok s') : TInv g par shape s' := by
  unfold readyDependents at h
  split at h
  · rename_i s1 hs
    have hgated : gated (s0.st id) := by
      rcases hst with e | e <;> rw [e] <;> simp [gated]
    have hprev : s0.st id ≠ .done ∧ s0.st id ≠ .failed := by
      rcases hst with e | e <;> rw [e] <;> simp
    have core1 := set_core core hs hid (by simp) hprev hnotin
      (by intro e; rcases hst with e' | e' <;> rw [e'] at e <;> cases e)
      (fun _ => core.ordered id hgated)
    have ti1 := set_tinv ti core1.exact hs hid (by rcases hst with e | e <;> rw [e] <;> rfl) (by intro e; cases e)
    have hr := set_running hs hid
    obtain ⟨_, _, -, -, hst1, -, -, -, -, hrun1, -⟩ := set_spec hs
    have hpools := set_pools hs core.poolNames
    have inv1 : Inv g par s1 := by
      refine { core1 with running := ?_, parBound := ?_, depthBound := ?_ }
      · rw [hrun1]
        unfold runDelta at hr
        rcases hst with e | e <;> simp [e] at hr hrun <;> omega
      · rw [hrun1]; exact hpar
      · intro p' hp' hd
        rw [hpools] at hp'
        simp only [List.mem_map] at hp'
        obtain ⟨p, hp, rfl⟩ := hp'
        simp at hd
        have := hdepth p hp hd
        rw [bump_running, bump_depth]
        have hle : runDelta (s0.st id) .done ≤ 0 := by
          unfold runDelta; split <;> simp
        split <;> omega
    refine (promote_inv2 _ s1 s' inv1 ti1 (nodup_orderBy _ _ (nodup_dedup _)) ?_ h).2
    intro d hd
    have hm := mem_orderBy _ _ _ hd
    obtain ⟨hw, hrr⟩ := promotable_spec g s1 id d hm
    exact ⟨hw, core1.valid d (by rw [hw]; simp), recheckReady_sound g s1 d hrr⟩
  · rename_i hne; exact absurd h (hne s')

/-- `enqueue`: the dirty branch of the ready loop; both its normal and its `unknown pool` exit. -/
theorem enqueue_tinv {g : Graph} {par : Nat} {shape : List (Bytes × Nat)} {s : S} {id : Nat} {rest : List Nat}
    (inv : Inv g par s) (ti : TInv g par shape s) (hr : s.ready = id :: rest) :
    match enqueueRun g { s with ready := rest } id with
    | .inl s1 => TInv g par shape s1
    | .inr (se, _) => TInv g par shape se := by
  have hstid : s.st id = .ready := inv.readySt id (by simp [hr])
  have hid : id < g.nBuilds := inv.valid id (by rw [hstid]; simp)
  have hnd := inv.readyNodup
  rw [hr] at hnd
  simp at hnd
  have core0 : InvCore g { s with ready := rest } :=
    { valid := inv.valid, readySt := fun x hx => inv.readySt x (by simp [hr, hx]), readyNodup := hnd.2,
      poolNames := inv.poolNames, queuedSt := inv.queuedSt, queuedNodup := inv.queuedNodup,
      poolRunning := inv.poolRunning, counts := inv.counts, pending := inv.pending, ordered := inv.ordered }
  have ti0 : TInv g par shape { s with ready := rest } := ti.of_same rfl rfl rfl
  have step : ∀ s2, set g { s with ready := rest } id .queued = .ok s2 → TInv g par shape s2 := by
    intro s2 hs
    have core2 := set_core core0 hs hid (by simp) (by simp [hstid]) (fun _ => hnd.1)
      (by intro e; simp [hstid] at e) (fun _ => inv.ordered id (by rw [hstid]; simp [gated]))
    exact set_tinv ti0 core2.exact hs hid (by show legal (s.st id) .queued = true; rw [hstid]; rfl) (by intro e; cases e)
  cases hres : enqueueRun g { s with ready := rest } id with
  | inl s1 =>
    simp only []
    unfold enqueueRun at hres
    split at hres
    · rename_i s2 hs
      split at hres
      · rename_i pools hm
        cases hres
        exact (step s2 hs).of_same rfl rfl (modPool_shape _ _ _ (fun p => { p with queued := p.queued ++ [id] }) (fun p => ⟨rfl, rfl⟩) hm)
      · cases hres
    · rename_i r hne
      exact absurd (resToRun_inl hres) (hne s1)
  | inr x =>
    obtain ⟨se, rr⟩ := x
    simp only []
    unfold enqueueRun at hres
    split at hres
    · rename_i s2 hs
      split at hres
      · cases hres
      · rename_i hm; cases hres; exact step _ hs
    · rw [resToRun_inr hres]; exact ti0

/-- In a state satisfying the invariant both limits hold. -/
theorem withinLimits_of {g : Graph} {par : Nat} {shape : List (Bytes × Nat)} {s : S} (inv : Inv g par s)
    (hshape : poolShape s.pools = shape) : withinLimits g par shape s.st = true := by
  simp only [withinLimits, Bool.and_eq_true, decide_eq_true_eq, List.all_eq_true, Bool.or_eq_true, beq_iff_eq]
  refine ⟨?_, ?_⟩
  · have h1 := inv.running
    have h2 := inv.parBound
    omega
  · intro nd hnd
    rw [← hshape] at hnd
    unfold poolShape at hnd
    simp only [List.mem_map] at hnd
    obtain ⟨x, hx, rfl⟩ := hnd
    simp only []
    by_cases hd : x.depth = 0
    · left; exact hd
    · right
      have h1 := inv.poolRunning x hx
      have h2 := inv.depthBound x hx (by omega)
      omega

/-- Starting a command: the `set .. Running` event and the `start` event. -/
theorem start_tinv {g : Graph} {par : Nat} {shape : List (Bytes × Nat)} {s s1 : S} {id : Nat} {pools : List Pool}
    (inv : Inv g par s) (ti : TInv g par shape s) (hlt : s.running < par)
    (hpop : popQueued s.pools = some (id, pools))
    (h : set g { s with pools := pools } id .running = .ok s1) :
    TInv g par shape { s1 with running := s1.running + 1, trace := Ev.start id :: s1.trace } := by
  have inv2 := start_inv inv hlt hpop h
  obtain ⟨p, q, hp, hq, hroom, hps⟩ := popQueued_spec _ _ _ inv.poolNames hpop
  have hpq := inv.queuedSt p hp id (by simp [hq])
  have hstid : s.st id = .queued := hpq.1
  have hid : id < g.nBuilds := inv.valid id (by rw [hstid]; simp)
  have hshape : poolShape pools = poolShape s.pools := by
    rw [hps]; unfold poolShape; rw [List.map_map]; apply List.map_congr_left
    intro x _; simp only [Function.comp]; split <;> rfl
  have ti0 : TInv g par shape { s with pools := pools } := ti.of_same rfl rfl hshape
  have ex1 : Exact g s1 := inv2.toInvCore.exact.of_same rfl rfl rfl
  have hsh1 : poolShape s1.pools = shape := by rw [set_shape h]; exact ti0.shape
  have hwl : withinLimits g par shape s1.st = true := withinLimits_of (s := { s1 with running := s1.running + 1, trace := Ev.start id :: s1.trace }) inv2 hsh1
  have ti1 := set_tinv ti0 ex1 h hid (by show legal (s.st id) .running = true; rw [hstid]; rfl) (fun _ => hwl)
  have htr := set_trace h
  refine ⟨?_, ?_, ti1.shape⟩
  · simp only [stOf]; exact ti1.st
  · simp only [okTrace, okEv, Bool.and_eq_true, List.any_eq_true, beq_iff_eq]
    refine ⟨⟨⟨⟨?_, ?_⟩, ?_⟩, ?_⟩, ti1.ok⟩
    · rw [htr]; show (match Ev.set id (s.st id) .running _ _ :: s.trace with
        | .set b' .queued .running _ _ :: _ => b' == id | _ => false) = true
      rw [hstid]; simp
    · rw [ti1.st]; exact hwl
    · refine ⟨(p.name, p.depth), ?_, by simp [hpq.2]⟩
      rw [← ti.shape]; unfold poolShape; simp only [List.mem_map]; exact ⟨p, hp, rfl⟩
    · rw [ti1.st]
      apply directDone_of
      have hst1 : s1.st id = .running := by
        obtain ⟨_, _, -, -, hst, -⟩ := set_spec h
        rw [hst]; simp
      exact inv2.ordered id (by show gated (s1.st id); rw [hst1]; simp [gated])

/-- The start loop, normal exit. -/
theorem startLoop_inl_inv2 {g : Graph} {par : Nat} {shape : List (Bytes × Nat)} (fuel : Nat) (s : S) (p : Bool)
    (inv : Inv g par s) (ti : TInv g par shape s)
    (s' : S) (p' : Bool) (h : startLoop g par fuel s p = .inl (s', p')) :
    Inv g par s' ∧ TInv g par shape s' := by
  induction fuel generalizing s p with
  | zero => simp [startLoop] at h
  | succ fuel ih =>
    unfold startLoop at h
    split at h
    · rename_i hlt
      split at h
      · cases h; exact ⟨inv, ti⟩
      · rename_i id pools hpop
        split at h
        · rename_i s1 hs
          exact ih _ _ (start_inv inv hlt hpop (resToRun_inl hs)) (start_tinv inv ti hlt hpop (resToRun_inl hs)) h
        · cases h
    · cases h; exact ⟨inv, ti⟩

/-- The start loop, error exit. -/
theorem startLoop_inr_tinv {g : Graph} {par : Nat} {shape : List (Bytes × Nat)} (fuel : Nat) (s : S) (p : Bool)
    (inv : Inv g par s) (ti : TInv g par shape s)
    (se : S) (r : RunResult) (h : startLoop g par fuel s p = .inr (se, r)) : TInv g par shape se := by
  induction fuel generalizing s p with
  | zero => simp [startLoop] at h; rw [← h.1]; exact ti
  | succ fuel ih =>
    unfold startLoop at h
    split at h
    · rename_i hlt
      split at h
      · cases h
      · rename_i id pools hpop
        split at h
        · rename_i s1 hs
          exact ih _ _ (start_inv inv hlt hpop (resToRun_inl hs)) (start_tinv inv ti hlt hpop (resToRun_inl hs)) h
        · rename_i r' hr
          cases h
          rw [resToRun_inr hr]; exact ti
    · cases h

/-- A ready build turned out clean / was adopted. -/
theorem clean_tinv {g : Graph} {par : Nat} {shape : List (Bytes × Nat)} {s s1 : S} {id : Nat} {rest perm : List Nat}
    (inv : Inv g par s) (ti : TInv g par shape s) (hr : s.ready = id :: rest)
    (h : readyDependents g { s with ready := rest } id perm = .ok s1) : TInv g par shape s1 := by
  have hstid : s.st id = .ready := inv.readySt id (by simp [hr])
  have hid : id < g.nBuilds := inv.valid id (by rw [hstid]; simp)
  have hnd := inv.readyNodup
  rw [hr] at hnd
  simp at hnd
  have core0 : InvCore g { s with ready := rest } :=
    { valid := inv.valid, readySt := fun x hx => inv.readySt x (by simp [hr, hx]), readyNodup := hnd.2,
      poolNames := inv.poolNames, queuedSt := inv.queuedSt, queuedNodup := inv.queuedNodup,
      poolRunning := inv.poolRunning, counts := inv.counts, pending := inv.pending, ordered := inv.ordered }
  apply readyDependents_tinv core0 (ti.of_same rfl rfl rfl) hid (Or.inl hstid) (fun _ => hnd.1) _
    inv.parBound inv.depthBound h
  show (s.running : Int) = _
  simp [hstid]
  exact inv.running

/-- A running command succeeded. -/
theorem succeeded_tinv {g : Graph} {par : Nat} {shape : List (Bytes × Nat)} {s s1 : S} {id : Nat}
    {perm : List Nat} (s0 : S)
    (inv : Inv g par s) (ti0 : TInv g par shape s0) (hst : s.st id = .running)
    (hcore : s0.st = s.st ∧ s0.counts = s.counts ∧ s0.pending = s.pending ∧ s0.ready = s.ready ∧ s0.pools = s.pools)
    (hrun0 : s0.running = s.running - 1)
    (h : readyDependents g s0 id perm = .ok s1) : TInv g par shape s1 := by
  obtain ⟨c1, c2, c3, c4, c5⟩ := hcore
  have hid : id < g.nBuilds := inv.valid id (by rw [hst]; simp)
  have core0 : InvCore g s0 :=
    { valid := by rw [c1]; exact inv.valid, readySt := by rw [c1, c4]; exact inv.readySt,
      readyNodup := by rw [c4]; exact inv.readyNodup, poolNames := by rw [c5]; exact inv.poolNames,
      queuedSt := by rw [c1, c5]; exact inv.queuedSt, queuedNodup := by rw [c5]; exact inv.queuedNodup,
      poolRunning := by rw [c1, c5]; exact inv.poolRunning, counts := by rw [c1, c2]; exact inv.counts,
      pending := by rw [c1, c3]; exact inv.pending, ordered := by rw [c1]; exact inv.ordered }
  have hst0 : s0.st id = .running := by rw [c1]; exact hst
  apply readyDependents_tinv core0 ti0 hid (Or.inr hst0) (by intro e; simp [hst0] at e) _ _ _ h
  · rw [hrun0, c1]; simp [hst]; have := inv.running; omega
  · rw [hrun0]; have := inv.parBound; omega
  · rw [c5]; exact inv.depthBound

/-- The ready loop, normal exit. -/
theorem readyLoop_inl_inv2 {E : Type} {g : Graph} {par : Nat} {shape : List (Bytes × Nat)} (c : Choices E)
    (fuel : Nat) (s : S) (e : E) (perms : List (List Nat)) (p : Bool)
    (inv : Inv g par s) (ti : TInv g par shape s)
    (s' : S) (e' : E) (perms' : List (List Nat)) (p' : Bool)
    (h : readyLoop g c fuel s e perms p = .inl (s', e', perms', p')) :
    Inv g par s' ∧ TInv g par shape s' := by
  induction fuel generalizing s e perms p with
  | zero => simp [readyLoop] at h
  | succ fuel ih =>
    unfold readyLoop at h
    split at h
    · cases h; exact ⟨inv, ti⟩
    · rename_i id rest hr
      simp only [] at h
      split at h
      · cases h
      · rename_i dirty e1 hc
        split at h
        · split at h
          · rename_i s1 hs
            exact ih _ _ _ _ (clean_inv inv hr (resToRun_inl hs)) (clean_tinv inv ti hr (resToRun_inl hs)) h
          · cases h
        · split at h
          · split at h
            · rename_i s1 hs
              exact ih _ _ _ _ (clean_inv inv hr (resToRun_inl hs)) (clean_tinv inv ti hr (resToRun_inl hs)) h
            · cases h
          · split at h
            · rename_i s1 hs
              have hq := enqueue_tinv inv ti hr
              rw [hs] at hq
              exact ih _ _ _ _ (enqueue_inv inv hr hs) hq h
            · cases h

/-- The ready loop, error exit. -/
theorem readyLoop_inr_tinv {E : Type} {g : Graph} {par : Nat} {shape : List (Bytes × Nat)} (c : Choices E)
    (fuel : Nat) (s : S) (e : E) (perms : List (List Nat)) (p : Bool)
    (inv : Inv g par s) (ti : TInv g par shape s)
    (se : S) (e' : E) (r : RunResult)
    (h : readyLoop g c fuel s e perms p = .inr (se, e', r)) : TInv g par shape se := by
  induction fuel generalizing s e perms p with
  | zero => simp [readyLoop] at h; rw [← h.1]; exact ti
  | succ fuel ih =>
    unfold readyLoop at h
    split at h
    · cases h
    · rename_i id rest hr
      have ti0 : TInv g par shape { s with ready := rest } := ti.of_same rfl rfl rfl
      simp only [] at h
      split at h
      · cases h; exact ti0
      · rename_i dirty e1 hc
        split at h
        · split at h
          · rename_i s1 hs
            exact ih _ _ _ _ (clean_inv inv hr (resToRun_inl hs)) (clean_tinv inv ti hr (resToRun_inl hs)) h
          · rename_i se' r' hs
            cases h
            rw [resToRun_inr hs]; exact ti0
        · split at h
          · split at h
            · rename_i s1 hs
              exact ih _ _ _ _ (clean_inv inv hr (resToRun_inl hs)) (clean_tinv inv ti hr (resToRun_inl hs)) h
            · rename_i se' r' hs
              cases h
              rw [resToRun_inr hs]; exact ti0
          · have hq := enqueue_tinv inv ti hr
            split at h
            · rename_i s1 hs
              rw [hs] at hq
              exact ih _ _ _ _ (enqueue_inv inv hr hs) hq h
            · rename_i se' r' hs
              rw [hs] at hq
              cases h
              exact hq

/-- **Every trace `Work::run` can produce satisfies the trace specification** — whatever the
    graph, `-j`, the environment's answers, the order in which commands finish and how, and
    whatever the outcome (success, failure, interruption, error, even running out of choices). -/
theorem runLoop_tinv {E : Type} {g : Graph} {par : Nat} {shape : List (Bytes × Nat)} (c : Choices E)
    (fuel : Nat) (s : S) (e : E) (perms : List (List Nat)) (fin : List (Nat × Term))
    (inv : Inv g par s) (ti : TInv g par shape s) :
    TInv g par shape (runLoop g par c fuel s e perms fin).s := by
  induction fuel generalizing s e perms fin with
  | zero => simp only [runLoop]; exact ti
  | succ fuel ih =>
    unfold runLoop
    by_cases hp : s.pending ≤ 0
    · simp only [hp, if_true]; exact ti
    · simp only [hp, if_false]
      have inv0 : Inv g par { s with trace := Ev.update (countsList s.counts) :: s.trace } :=
        Inv.of_sameCore (s := s) ⟨rfl, rfl, rfl, rfl, rfl, rfl⟩ inv
      have ti0 := update_tinv inv.toInvCore.exact ti
      cases h1 : startLoop g par (g.nBuilds + 1) { s with trace := Ev.update (countsList s.counts) :: s.trace } false with
      | inr r =>
        obtain ⟨se, rr⟩ := r
        simp only []
        exact startLoop_inr_tinv _ _ _ inv0 ti0 _ _ h1
      | inl r =>
        obtain ⟨s1, p1⟩ := r
        simp only []
        obtain ⟨i1, t1⟩ := startLoop_inl_inv2 _ _ _ inv0 ti0 _ _ h1
        cases h2 : readyLoop g c (g.nBuilds + 1) s1 e perms false with
        | inr r =>
          obtain ⟨se, e2, rr⟩ := r
          simp only []
          exact readyLoop_inr_tinv c _ _ _ _ _ i1 t1 _ _ _ h2
        | inl r =>
          obtain ⟨s2, e2, perms2, p2⟩ := r
          simp only []
          obtain ⟨i2, t2⟩ := readyLoop_inl_inv2 c _ _ _ _ _ i1 t1 _ _ _ _ h2
          by_cases hpp : (p1 || p2) = true
          · simp only [hpp, if_true]; exact ih _ _ _ _ i2 t2
          · simp only [hpp, Bool.false_eq_true, if_false]
            by_cases hrun : s2.running ≤ 0
            · simp only [hrun, if_true]; split <;> exact t2
            · simp only [hrun, if_false]
              cases fin with
              | nil => exact t2
              | cons ft fin' =>
                obtain ⟨id, t⟩ := ft
                simp only []
                by_cases hst : s2.st id ≠ .running
                · rw [if_pos hst]; exact t2
                · rw [if_neg hst]
                  have hst' : s2.st id = .running := by simpa using hst
                  have t3 := finish_tinv t t2 hst'
                  have hid : id < g.nBuilds := i2.valid id (by rw [hst']; simp)
                  cases t with
                  | interrupted => exact t3
                  | failure =>
                    simp only []
                    cases hfl : s2.failuresLeft with
                    | none =>
                      simp only []
                      generalize h4 : resToRun _ _ = r4
                      cases r4 with
                      | inl s4 =>
                        simp only []
                        have i4 : Inv g par s4 := by
                          refine failed_inv _ i2 hst' ?_ ?_ (resToRun_inl h4)
                          · exact ⟨rfl, rfl, rfl, rfl, rfl⟩
                          · rfl
                        refine ih _ _ _ _ i4 ?_
                        refine set_tinv ?_ i4.toInvCore.exact (resToRun_inl h4) hid ?_ (by intro e; cases e)
                        · exact t3.of_same rfl rfl rfl
                        · show legal (s2.st id) .failed = true; rw [hst']; rfl
                      | inr r =>
                        obtain ⟨se, rr⟩ := r
                        simp only []
                        rw [resToRun_inr h4]; exact t3.of_same rfl rfl rfl
                    | some n =>
                      simp only []
                      by_cases hn0 : n = 0
                      · rw [if_pos hn0]; exact t3.of_same rfl rfl rfl
                      · rw [if_neg hn0]
                        by_cases hn1 : n - 1 = 0
                        · rw [if_pos hn1]; exact t3.of_same rfl rfl rfl
                        · rw [if_neg hn1]
                          generalize h4 : resToRun _ _ = r4
                          cases r4 with
                          | inl s4 =>
                            simp only []
                            have i4 : Inv g par s4 := by
                              refine failed_inv _ i2 hst' ?_ ?_ (resToRun_inl h4)
                              · exact ⟨rfl, rfl, rfl, rfl, rfl⟩
                              · rfl
                            refine ih _ _ _ _ i4 ?_
                            refine set_tinv ?_ i4.toInvCore.exact (resToRun_inl h4) hid ?_ (by intro e; cases e)
                            · exact t3.of_same rfl rfl rfl
                            · show legal (s2.st id) .failed = true; rw [hst']; rfl
                          | inr r =>
                            obtain ⟨se, rr⟩ := r
                            simp only []
                            rw [resToRun_inr h4]; exact t3.of_same rfl rfl rfl
                  | success =>
                    simp only []
                    generalize h4 : resToRun _ _ = r4
                    cases r4 with
                    | inl s4 =>
                      simp only []
                      have i4 : Inv g par s4 := by
                        refine succeeded_inv _ i2 hst' ?_ ?_ (resToRun_inl h4)
                        · exact ⟨rfl, rfl, rfl, rfl, rfl⟩
                        · rfl
                      refine ih _ _ _ _ i4 ?_
                      refine succeeded_tinv _ i2 ?_ hst' ?_ ?_ (resToRun_inl h4)
                      · exact t3.of_same rfl rfl rfl
                      · exact ⟨rfl, rfl, rfl, rfl, rfl⟩
                      · rfl
                    | inr r =>
                      obtain ⟨se, rr⟩ := r
                      simp only []
                      rw [resToRun_inr h4]; exact t3.of_same rfl rfl rfl

end N2V.Sched
