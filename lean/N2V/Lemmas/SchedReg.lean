/-
  `Work::run` never reaches its BUG panic - under REGIONAL acyclicity: only the builds that are
  marked (left Unknown) need to admit a rank; `Work::run` never marks a new build (`Keeps`), so the
  hypothesis travels along.  With Lemmas/SchedAcyclic (success of the want phase gives regional
  acyclicity) the global hypothesis `Acyclic g` of the earlier theorems becomes unnecessary.
-/
import N2V.Lemmas.SchedAcyclic
namespace N2V.Sched

/-- The marked builds admit a rank that decreases along ordering edges. -/
def RegAcyc (g : Graph) (s : S) : Prop :=
  ∃ rank : Nat → Nat, ∀ b f p, s.st b ≠ .unknown → f ∈ (g.build b).ordering → g.producer f = some p → rank p < rank b

theorem RegAcyc.of_keeps {g : Graph} {s s' : S} (h : RegAcyc g s) (k : Keeps s s') : RegAcyc g s' := by
  obtain ⟨rank, hr⟩ := h
  exact ⟨rank, fun b f p hb hf hp => hr b f p (k b hb) hf hp⟩

theorem RegAcyc.of_global {g : Graph} (h : Acyclic g) (s : S) : RegAcyc g s := by
  obtain ⟨rank, hr⟩ := h
  exact ⟨rank, fun b f p _ hf hp => hr b f p hf hp⟩

theorem no_stall_reg {g : Graph} {par : Nat} {s : S} (inv : Inv g par s) (pi : PInv g s) (acyc : RegAcyc g s)
    (hpar : 0 < par) (hpend : ¬ s.pending ≤ 0) (hready : s.ready = [])
    (hpop : ¬ s.running < par ∨ popQueued s.pools = none) (hrun : s.running ≤ 0)
    (htf : s.tasksFailed = 0) : False := by
  -- nothing is running
  have hcr : cnt g.nBuilds (fun b => s.st b == .running) = 0 := by
    have := inv.running; omega
  have hnorun : ∀ b, s.st b ≠ .running := by
    intro b hb
    have hlt : b < g.nBuilds := inv.valid b (by rw [hb]; simp)
    have := cnt_zero_forall _ _ hcr b hlt
    simp [hb] at this
  -- hence the queues hold nothing
  have hpopn : popQueued s.pools = none := by
    rcases hpop with h | h
    · exfalso; apply h; have := inv.running; omega
    · exact h
  have hnoq : ∀ b, s.st b ≠ .queued := by
    intro b hb
    obtain ⟨p, hp, hbp⟩ := pi.que b hb
    have hpr := inv.poolRunning p hp
    have hz : cnt g.nBuilds (fun b => s.st b == .running && (g.build b).pool == p.name) = 0 := by
      apply cnt_eq_zero
      intro x
      have := hnorun x
      simp [this]
    have hroom : p.depth = 0 ∨ p.running < p.depth := by
      by_cases hd : p.depth = 0
      · exact Or.inl hd
      · right; rw [hpr, hz]; omega
    have := popQueued_none _ hpopn p hp hroom
    rw [this] at hbp; cases hbp
  have hnor : ∀ b, s.st b ≠ .ready := by
    intro b hb; have := pi.rdy b hb; rw [hready] at this; cases this
  have hnof : ∀ b, s.st b ≠ .failed := by
    intro b hb; have := pi.fld b hb; omega
  -- no build can be Want: follow producers downwards
  obtain ⟨rank, hrank⟩ := acyc
  have hnow : ∀ n b, rank b = n → s.st b ≠ .want := by
    intro n
    induction n using Nat.strongRecOn with
    | _ n ih =>
      intro b hb hw
      obtain ⟨f, hf, p, hp, hnd⟩ := recheckReady_false g s b (pi.wnt b hw)
      have hpu := pi.clo b (by rw [hw]; simp) f hf p hp
      have hlt := hrank b f p (by rw [hw]; simp) hf hp
      have hpw : s.st p = .want := by
        cases hsp : s.st p with
        | unknown => exact absurd hsp hpu
        | want => rfl
        | ready => exact absurd hsp (hnor p)
        | queued => exact absurd hsp (hnoq p)
        | running => exact absurd hsp (hnorun p)
        | done => exact absurd hsp hnd
        | failed => exact absurd hsp (hnof p)
      exact ih (rank p) (by omega) p rfl hpw
  -- but something is pending
  have hpos : 0 < cnt g.nBuilds (fun b => active (s.st b)) := by
    have := inv.pending; omega
  obtain ⟨b, _, hb⟩ := cnt_pos_exists _ _ hpos
  cases hsb : s.st b with
  | unknown => rw [hsb] at hb; simp [active] at hb
  | want => exact hnow _ b rfl hsb
  | ready => exact hnor b hsb
  | queued => exact hnoq b hsb
  | running => exact hnorun b hsb
  | done => rw [hsb] at hb; simp [active] at hb
  | failed => rw [hsb] at hb; simp [active] at hb


/-- **`Work::run` never reaches its `BUG` panic** when the marked builds are acyclic. -/
theorem runLoop_no_bug_reg {E : Type} {g : Graph} {par : Nat} (dok : DepsOK g) (hpar : 0 < par)
    (c : Choices E) (fuel : Nat) (s : S) (e : E) (perms : List (List Nat)) (fin : List (Nat × Term))
    (inv : Inv g par s) (pi : PInv g s) (acyc : RegAcyc g s) :
    (runLoop g par c fuel s e perms fin).result ≠ .bug ∧
    ((runLoop g par c fuel s e perms fin).result = .ok true → PInv g (runLoop g par c fuel s e perms fin).s) := by
  induction fuel generalizing s e perms fin with
  | zero => exact ⟨by simp [runLoop], by simp [runLoop]⟩
  | succ fuel ih =>
    unfold runLoop
    by_cases hp : s.pending ≤ 0
    · simp only [hp, if_true]; exact ⟨by simp, fun _ => pi⟩
    · simp only [hp, if_false]
      have inv0 : Inv g par { s with trace := Ev.update (countsList s.counts) :: s.trace } :=
        Inv.of_sameCore (s := s) ⟨rfl, rfl, rfl, rfl, rfl, rfl⟩ inv
      have pi0 : PInv g { s with trace := Ev.update (countsList s.counts) :: s.trace } :=
        ⟨pi.rdy, pi.que, fun b hb => by
          have := pi.wnt b hb; rw [← this]; exact recheckReady_congr g s _ b (fun _ => Iff.rfl),
         pi.clo, pi.fld⟩
      have k0 : Keeps s { s with trace := Ev.update (countsList s.counts) :: s.trace } := fun _ h => h
      have hs1 := startLoop_keeps (g := g) (par := par) (g.nBuilds + 1) _ false inv0
      cases h1 : startLoop g par (g.nBuilds + 1) { s with trace := Ev.update (countsList s.counts) :: s.trace } false with
      | inr r =>
        obtain ⟨se, rr⟩ := r
        simp only []
        exact ⟨fun hb => by rw [hb] at h1; exact startLoop_not_bug _ _ _ _ _ _ h1,
               fun hb => by rw [hb] at h1; exact absurd h1 (startLoop_not_ok _ _ _ _ _ _ _)⟩
      | inl r =>
        obtain ⟨s1, p1⟩ := r
        rw [h1] at hs1
        simp only []
        have i1 := startLoop_inl_inv _ _ _ inv0 _ _ h1
        have hs2 := readyLoop_keeps (g := g) c (g.nBuilds + 1) s1 e perms false i1
        have q1 := startLoop_inl_pinv _ _ _ inv0 pi0 _ _ h1
        cases h2 : readyLoop g c (g.nBuilds + 1) s1 e perms false with
        | inr r =>
          obtain ⟨se, e2, rr⟩ := r
          simp only []
          exact ⟨fun hb => by rw [hb] at h2; exact readyLoop_not_bug _ c _ _ _ _ _ _ _ h2,
                 fun hb => by rw [hb] at h2; exact absurd h2 (readyLoop_not_ok _ _ _ _ _ _ _ _ _ _)⟩
        | inl r =>
          obtain ⟨s2, e2, perms2, p2⟩ := r
          rw [h2] at hs2
          simp only []
          have i2 := readyLoop_inl_inv c _ _ _ _ _ i1 _ _ _ _ h2
          have k2 : Keeps s s2 := (k0.trans hs1).trans hs2
          have acyc2 : RegAcyc g s2 := acyc.of_keeps k2
          have q2 := readyLoop_inl_pinv dok c _ _ _ _ _ i1 q1 _ _ _ _ h2
          by_cases hpp : (p1 || p2) = true
          · simp only [hpp, if_true]; exact ih _ _ _ _ i2 q2 acyc2
          · simp only [hpp, Bool.false_eq_true, if_false]
            have hp1 : p1 = false := by cases p1 <;> simp_all
            have hp2 : p2 = false := by cases p2 <;> simp_all
            subst hp1; subst hp2
            by_cases hrun : s2.running ≤ 0
            · simp only [hrun, if_true]
              split
              · exact ⟨by simp, by simp⟩
              · rename_i htf
                exfalso
                obtain ⟨e21, hrdy⟩ := readyLoop_false c _ _ _ _ _ _ _ h2
                obtain ⟨e10, hpop⟩ := startLoop_false _ _ _ h1
                have hpend2 : ¬ s2.pending ≤ 0 := by rw [e21, e10]; exact hp
                have hrdy2 : s2.ready = [] := by rw [e21]; exact hrdy
                have hpop2 : ¬ s2.running < par ∨ popQueued s2.pools = none := by rw [e21, e10]; exact hpop
                exact no_stall_reg i2 q2 acyc2 hpar hpend2 hrdy2 hpop2 hrun (by omega)
            · simp only [hrun, if_false]
              cases fin with
              | nil => exact ⟨by simp, by simp⟩
              | cons ft fin' =>
                obtain ⟨id, t⟩ := ft
                simp only []
                by_cases hst : s2.st id ≠ .running
                · rw [if_pos hst]; exact ⟨by simp, by simp⟩
                · rw [if_neg hst]
                  have hst' : s2.st id = .running := by simpa using hst
                  have hidn : s2.st id ≠ .unknown := by rw [hst']; simp
                  cases t with
                  | interrupted => exact ⟨by simp, by simp⟩
                  | success =>
                    simp only []
                    generalize h4 : resToRun _ _ = r4
                    cases r4 with
                    | inl s4 =>
                      simp only []
                      refine ih _ _ _ _ ?_ ?_ (acyc2.of_keeps (by intro b hb; refine readyDependents_keeps ?_ (resToRun_inl h4) b hb; exact hidn))
                      · refine succeeded_inv _ i2 hst' ?_ ?_ (resToRun_inl h4)
                        · exact ⟨rfl, rfl, rfl, rfl, rfl⟩
                        · rfl
                      · refine succeeded_pinv dok _ q2 hst' ?_ ?_ ?_ ?_ (resToRun_inl h4) <;> rfl
                    | inr r =>
                      obtain ⟨se, rr⟩ := r
                      simp only []
                      exact ⟨fun hb => by rw [hb] at h4; exact resToRun_not_bug _ _ _ h4,
                             fun hb => by rw [hb] at h4; exact absurd h4 (resToRun_not_ok _ _ _ _)⟩
                  | failure =>
                    simp only []
                    cases hfl : s2.failuresLeft with
                    | none =>
                      simp only []
                      generalize h4 : resToRun _ _ = r4
                      cases r4 with
                      | inl s4 =>
                        simp only []
                        refine ih _ _ _ _ ?_ ?_ (acyc2.of_keeps (fun b hb => set_keeps (s := _) (resToRun_inl h4) hidn b hb))
                        · refine failed_inv _ i2 hst' ?_ ?_ (resToRun_inl h4)
                          · exact ⟨rfl, rfl, rfl, rfl, rfl⟩
                          · rfl
                        · refine failed_pinv (s0 := _) ?_ ?_ ?_ ?_ ?_ ?_ (resToRun_inl h4)
                          · exact hst'
                          · show 0 < s2.tasksFailed + 1; omega
                          · exact q2.rdy
                          · exact q2.que
                          · intro b hb
                            have := q2.wnt b hb; rw [← this]
                            exact recheckReady_congr g s2 _ b (fun _ => Iff.rfl)
                          · exact q2.clo
                      | inr r =>
                        obtain ⟨se, rr⟩ := r
                        simp only []
                        exact ⟨fun hb => by rw [hb] at h4; exact resToRun_not_bug _ _ _ h4,
                               fun hb => by rw [hb] at h4; exact absurd h4 (resToRun_not_ok _ _ _ _)⟩
                    | some n =>
                      simp only []
                      by_cases hn0 : n = 0
                      · rw [if_pos hn0]; exact ⟨by simp, by simp⟩
                      · rw [if_neg hn0]
                        by_cases hn1 : n - 1 = 0
                        · rw [if_pos hn1]; exact ⟨by simp, by simp⟩
                        · rw [if_neg hn1]
                          generalize h4 : resToRun _ _ = r4
                          cases r4 with
                          | inl s4 =>
                            simp only []
                            refine ih _ _ _ _ ?_ ?_ (acyc2.of_keeps (fun b hb => set_keeps (s := _) (resToRun_inl h4) hidn b hb))
                            · refine failed_inv _ i2 hst' ?_ ?_ (resToRun_inl h4)
                              · exact ⟨rfl, rfl, rfl, rfl, rfl⟩
                              · rfl
                            · refine failed_pinv (s0 := _) ?_ ?_ ?_ ?_ ?_ ?_ (resToRun_inl h4)
                              · exact hst'
                              · show 0 < s2.tasksFailed + 1; omega
                              · exact q2.rdy
                              · exact q2.que
                              · intro b hb
                                have := q2.wnt b hb; rw [← this]
                                exact recheckReady_congr g s2 _ b (fun _ => Iff.rfl)
                              · exact q2.clo
                          | inr r =>
                            obtain ⟨se, rr⟩ := r
                            simp only []
                            exact ⟨fun hb => by rw [hb] at h4; exact resToRun_not_bug _ _ _ h4,
                                   fun hb => by rw [hb] at h4; exact absurd h4 (resToRun_not_ok _ _ _ _)⟩



/-- Success of the want phase gives regional acyclicity: rank = number of ordering ancestors. -/
theorem regAcyc_of_ai {g : Graph} (gok : GraphOK g) {s : S} (h : AI g s) : RegAcyc g s := by
  classical
  refine ⟨fun b => cnt g.nBuilds (fun q => decide (Anc g b q)), ?_⟩
  intro b f p hb hf hp
  have hbp : Anc g b p := Anc.direct hf hp
  have hpm : s.st p ≠ .unknown := h.closed b hb f hf p hp
  apply Nat.lt_of_succ_le
  apply cnt_lt _ _ _ _ p (gok f p hp)
  · simp only [decide_eq_true_eq]; exact hbp
  · simp only [decide_eq_false_iff_not]; exact h.acyc p hpm
  · intro q _ hq
    simp only [decide_eq_true_eq] at hq ⊢
    exact Anc.step hbp hq

theorem AI.of_same_marked {g : Graph} {s s' : S} (h : AI g s) (m : Mono s s') (k : Keeps s s') : AI g s' :=
  ⟨fun b hb f hf p hp => m p (h.closed b (k b hb) f hf p hp), fun b hb => h.acyc b (k b hb)⟩

end N2V.Sched

namespace N2V.Run
open N2V N2V.Sched

/-- The property holds of the state a successful result carries. -/
def OkKeep {α : Type} (Q : S → Prop) : WR α → Prop
  | .ok _ s' => Q s'
  | _ => True

theorem wantAll_acyclic (g : Graph) (fs : List Nat) : ∀ (s : S), AI g s → OkKeep (AI g) (wantAll g s fs) := by
  induction fs with
  | nil => intro s h; simp only [wantAll]; exact h
  | cons f fs ih =>
    intro s h
    unfold wantAll
    cases hw : want g s f with
    | ok u s1 => exact ih s1 (want_acyclic g s s1 f h hw)
    | err m s1 => trivial
    | bad m => trivial

theorem wantTargets_acyclic (g : Graph) (a : Args) (ns : List Bytes) : ∀ (s : S), AI g s →
    OkKeep (AI g) (wantTargets g a s ns) := by
  induction ns with
  | nil => intro s h; simp only [wantTargets]; exact h
  | cons n ns ih =>
    intro s h
    unfold wantTargets
    split
    · split
      · exact ih s h
      · trivial
    · split
      · exact ih s h
      · rename_i t _ _
        cases hw : want g s t with
        | ok u s1 => exact ih s1 (want_acyclic g s s1 t h hw)
        | err m s1 => trivial
        | bad m => trivial
    · trivial
    · trivial

theorem phase2_no_bug_reg {E : Type} {g : Graph} (gok : GraphOK g) (dok : DepsOK g) (a : Args)
    (hpar : 0 < a.par) (c : Choices E) (s2 : S) (e : E) (perms : List (List Nat)) (fin : List (Nat × Term))
    (n0 : Nat) (inv : Inv g a.par s2) (pi : PInv g s2) (ai : AI g s2) :
    (phase2 g a c s2 e perms fin n0).2.2 ≠ .bug := by
  unfold phase2
  have hw : WRRel g a.par s2 (if !a.targets.isEmpty then wantTargets g a s2 a.targets
      else if !a.defaults.isEmpty then wantAll g s2 a.defaults
      else wantAll g s2 ((List.range g.nFiles).filter (· ≠ a.manifest))) := by
    split
    · exact wantTargets_rel a gok _ _ _ (WRel.refl inv)
    · split
      · exact wantAll_rel gok _ _ _ (WRel.refl inv)
      · exact wantAll_rel gok _ _ _ (WRel.refl inv)
  have hai : OkKeep (AI g) (if !a.targets.isEmpty then wantTargets g a s2 a.targets
      else if !a.defaults.isEmpty then wantAll g s2 a.defaults
      else wantAll g s2 ((List.range g.nFiles).filter (· ≠ a.manifest))) := by
    split
    · exact wantTargets_acyclic g a a.targets s2 ai
    · split
      · exact wantAll_acyclic g _ s2 ai
      · exact wantAll_acyclic g _ s2 ai
  simp only []
  generalize (if !a.targets.isEmpty then wantTargets g a s2 a.targets
      else if !a.defaults.isEmpty then wantAll g s2 a.defaults
      else wantAll g s2 ((List.range g.nFiles).filter (· ≠ a.manifest))) = w at hw hai ⊢
  cases w with
  | ok u s3 =>
    simp only []
    have hr := runLoop_no_bug_reg dok hpar c (runFuel g) s3 e perms fin hw.inv (hw.pinv pi) (regAcyc_of_ai gok hai)
    cases hres : (runLoop g a.par c (runFuel g) s3 e perms fin).result with
    | ok b => cases b <;> simp [ofRun]
    | bug => exact absurd hres hr.1
    | _ => simp [ofRun]
  | err m s3 => simp
  | bad m => simp


theorem build_no_bug_free {E : Type} {g : Graph} (gok : GraphOK g) (dok : DepsOK g) (a : Args)
    (hpar : 0 < a.par) (c : Choices E) (e : E) : (build g a c e).2.2 ≠ .bug := by
  unfold build
  simp only []
  have hw := want_rel gok (fresh a) a.manifest (fresh_inv g a)
  cases hwant : want g (fresh a) a.manifest with
  | ok u s1 =>
    rw [hwant] at hw
    simp only []
    have ai1 : AI g s1 := want_acyclic g (fresh a) s1 a.manifest (ai_of_unmarked g (fresh a) (fun _ => rfl)) hwant
    have air : AI g (runLoop g a.par c (runFuel g) s1 e c.perms c.finishes).s :=
      ai1.of_same_marked (runLoop_mono (g := g) (par := a.par) c (runFuel g) s1 e c.perms c.finishes)
        (runLoop_keeps c (runFuel g) s1 e c.perms c.finishes hw.inv)
    have hr := runLoop_no_bug_reg dok hpar c (runFuel g) s1 e c.perms c.finishes hw.inv (hw.pinv (fresh_pinv g a)) (regAcyc_of_ai gok ai1)
    cases hres : (runLoop g a.par c (runFuel g) s1 e c.perms c.finishes).result with
    | ok b =>
      cases b with
      | true =>
        simp only []
        split
        · simp
        · exact phase2_no_bug_reg gok dok a hpar c _ _ _ _ 0 (runLoop_inv c _ _ _ _ _ hw.inv hres) (hr.2 hres) air
      | false => simp [ofRun]
    | bug => exact absurd hres hr.1
    | _ => simp [ofRun]
  | err m s1 => simp
  | bad m => simp


theorem phase2_done_settled_reg {E : Type} {g : Graph} (gok : GraphOK g) (dok : DepsOK g)
    (a : Args) (hpar : 0 < a.par) (c : Choices E) (s2 : S) (e : E) (perms : List (List Nat))
    (fin : List (Nat × Term)) (n0 n : Nat) (inv : Inv g a.par s2) (pi : PInv g s2) (ai : AI g s2)
    (h : (phase2 g a c s2 e perms fin n0).2.2 = .done n) (b : Nat) :
    (phase2 g a c s2 e perms fin n0).1.st b = .unknown ∨ (phase2 g a c s2 e perms fin n0).1.st b = .done := by
  unfold phase2 at h ⊢
  have hw : WRRel g a.par s2 (if !a.targets.isEmpty then wantTargets g a s2 a.targets
      else if !a.defaults.isEmpty then wantAll g s2 a.defaults
      else wantAll g s2 ((List.range g.nFiles).filter (· ≠ a.manifest))) := by
    split
    · exact wantTargets_rel a gok _ _ _ (WRel.refl inv)
    · split
      · exact wantAll_rel gok _ _ _ (WRel.refl inv)
      · exact wantAll_rel gok _ _ _ (WRel.refl inv)
  have hai : OkKeep (AI g) (if !a.targets.isEmpty then wantTargets g a s2 a.targets
      else if !a.defaults.isEmpty then wantAll g s2 a.defaults
      else wantAll g s2 ((List.range g.nFiles).filter (· ≠ a.manifest))) := by
    split
    · exact wantTargets_acyclic g a a.targets s2 ai
    · split
      · exact wantAll_acyclic g _ s2 ai
      · exact wantAll_acyclic g _ s2 ai
  simp only [] at h ⊢
  generalize (if !a.targets.isEmpty then wantTargets g a s2 a.targets
      else if !a.defaults.isEmpty then wantAll g s2 a.defaults
      else wantAll g s2 ((List.range g.nFiles).filter (· ≠ a.manifest))) = w at hw hai h ⊢
  cases w with
  | ok u s3 =>
    simp only [] at h ⊢
    have hr := runLoop_no_bug_reg dok hpar c (runFuel g) s3 e perms fin hw.inv (hw.pinv pi) (regAcyc_of_ai gok hai)
    cases hres : (runLoop g a.par c (runFuel g) s3 e perms fin).result with
    | ok bb =>
      cases bb with
      | true =>
        simp only [hres]
        have hok := runLoop_ok_true g a.par c _ _ _ _ _ hres
        exact settled_of (runLoop_inv c _ _ _ _ _ hw.inv hres) (hr.2 hres) hok.2 hok.1 b
      | false => simp [hres, ofRun] at h
    | _ => simp [hres, ofRun] at h
  | err m s3 => simp at h
  | bad m => simp at h


theorem build_done_settled_free {E : Type} {g : Graph} (gok : GraphOK g) (dok : DepsOK g)
    (a : Args) (hpar : 0 < a.par) (c : Choices E) (e : E) (n : Nat) (h : (build g a c e).2.2 = .done n)
    (b : Nat) : (build g a c e).1.st b = .unknown ∨ (build g a c e).1.st b = .done := by
  unfold build at h ⊢
  simp only [] at h ⊢
  have hw := want_rel gok (fresh a) a.manifest (fresh_inv g a)
  cases hwant : want g (fresh a) a.manifest with
  | ok u s1 =>
    rw [hwant] at hw
    simp only [hwant] at h ⊢
    have ai1 : AI g s1 := want_acyclic g (fresh a) s1 a.manifest (ai_of_unmarked g (fresh a) (fun _ => rfl)) hwant
    have air : AI g (runLoop g a.par c (runFuel g) s1 e c.perms c.finishes).s :=
      ai1.of_same_marked (runLoop_mono (g := g) (par := a.par) c (runFuel g) s1 e c.perms c.finishes)
        (runLoop_keeps c (runFuel g) s1 e c.perms c.finishes hw.inv)
    have hr := runLoop_no_bug_reg dok hpar c (runFuel g) s1 e c.perms c.finishes hw.inv (hw.pinv (fresh_pinv g a)) (regAcyc_of_ai gok ai1)
    cases hres : (runLoop g a.par c (runFuel g) s1 e c.perms c.finishes).result with
    | ok bb =>
      cases bb with
      | true =>
        simp only [hres] at h ⊢
        split
        · rename_i hne; simp [hne] at h
        · rename_i h0
          simp only [h0, if_false] at h
          exact phase2_done_settled_reg gok dok a hpar c _ _ _ _ 0 n (runLoop_inv c _ _ _ _ _ hw.inv hres) (hr.2 hres) air h b
      | false => simp [hres, ofRun] at h
    | _ => simp [hres, ofRun] at h
  | err m s1 => simp [hwant] at h
  | bad m => simp [hwant] at h


end N2V.Run
