/-
  The want phase (`want_file`/`want_build` and their loops) only ever assigns `Want` or `Ready`,
  and only to builds that were not yet queued/running/finished: it never creates, removes or
  changes a `Queued`, `Running`, `Done` or `Failed` state.  Joint induction on the fuel of the
  four mutually recursive functions (this covers the re-entrant second visit of a build that
  validation edges make possible).
-/
import N2V.Lemmas.SchedRun
namespace N2V.Sched

def late (x : St) : Prop := x = .queued ∨ x = .running ∨ x = .done ∨ x = .failed

/-- `s'` has exactly the same queued/running/done/failed builds as `s`. -/
def LateEq (s s' : S) : Prop :=
  (∀ b x, late x → (s'.st b = x ↔ s.st b = x)) ∧ s'.running = s.running ∧
  s'.tasksFailed = s.tasksFailed ∧ s'.tasksRun = s.tasksRun

theorem LateEq.refl (s : S) : LateEq s s := ⟨fun _ _ _ => Iff.rfl, rfl, rfl, rfl⟩

theorem LateEq.trans {a b c : S} (h1 : LateEq a b) (h2 : LateEq b c) : LateEq a c :=
  ⟨fun x y hy => (h2.1 x y hy).trans (h1.1 x y hy), h2.2.1.trans h1.2.1,
   h2.2.2.1.trans h1.2.2.1, h2.2.2.2.trans h1.2.2.2⟩

/-- Setting a not-late build to `Want`/`Ready` keeps the late states. -/
theorem set_lateEq {g : Graph} {s s' : S} {id : Nat} {new : St} (h : set g s id new = .ok s')
    (hnew : new = .want ∨ new = .ready) (hprev : ¬ late (s.st id)) : LateEq s s' := by
  obtain ⟨_, _, -, -, hst, -, -, -, -, hr, htf, htr, -⟩ := set_spec h
  refine ⟨?_, hr, htf, htr⟩
  intro b x hx
  rw [hst]
  by_cases e : b = id
  · subst e
    simp
    constructor
    · intro e; subst e; rcases hnew with rfl | rfl <;> simp [late] at hx
    · intro e; rw [e] at hprev; exact absurd hx hprev
  · rw [upd_other _ _ _ _ e]

/-- Both outcomes that carry a state (success, or an error such as a dependency cycle raised
    part-way) leave the late states as they were. -/
def WR.lateEq {α} (s : S) : WR α → Prop
  | .ok _ s' => LateEq s s'
  | .err _ s' => LateEq s s'
  | .bad _ => True

theorem want_lateEq (g : Graph) : ∀ fuel : Nat,
    (∀ s stack f, (wantFile g fuel s stack f).lateEq s) ∧
    (∀ s stack id, (wantBuild g fuel s stack id).lateEq s) ∧
    (∀ s stack fs rd, (wantIns g fuel s stack fs rd).lateEq s) ∧
    (∀ s fs, (wantVals g fuel s fs).lateEq s) := by
  intro fuel
  induction fuel with
  | zero => refine ⟨?_, ?_, ?_, ?_⟩ <;> intros <;> simp [wantFile, wantBuild, wantIns, wantVals, WR.lateEq]
  | succ fuel ih =>
    obtain ⟨ihF, ihB, ihI, ihV⟩ := ih
    refine ⟨?_, ?_, ?_, ?_⟩
    · intro s stack f
      unfold wantFile
      split
      · exact LateEq.refl _
      · split
        · exact LateEq.refl _
        · have := ihB s (stack ++ [f]) ‹Nat›
          split <;> rename_i hb <;> rw [hb] at this <;> simpa [WR.lateEq] using this
    · intro s stack id
      unfold wantBuild
      split
      · exact LateEq.refl _
      · rename_i hunk
        simp at hunk
        have hi := ihI s stack (g.build id).ordering true
        split
        · rename_i rd s1 hins
          rw [hins] at hi
          simp only [WR.lateEq] at hi
          have hprev : ¬ late (s1.st id) := by
            intro hl
            have := (hi.1 id (s1.st id) hl).mp rfl
            rw [hunk] at this
            rw [← this] at hl
            simp [late] at hl
          simp only []
          generalize hstate : (if rd = true then St.ready else St.want) = state
          have hnew : state = .want ∨ state = .ready := by rw [← hstate]; split <;> simp
          split
          · rename_i s2 hs
            have e2 := set_lateEq hs hnew hprev
            have hv := ihV s2 (g.build id).validation
            split <;> rename_i hvv <;> rw [hvv] at hv
            · exact (hi.trans e2).trans hv
            · exact (hi.trans e2).trans hv
            · trivial
          · trivial
          · trivial
        · rename_i m s1 hins
          rw [hins] at hi; exact hi
        · trivial
    · intro s stack fs rd
      cases fs with
      | nil => simp only [wantIns]; exact LateEq.refl _
      | cons f fs =>
        simp only [wantIns]
        have hf := ihF s stack f
        split <;> rename_i hff <;> rw [hff] at hf
        · rename_i r s'
          have h2 := ihI s' stack fs (rd && r)
          revert h2
          cases wantIns g fuel s' stack fs (rd && r) with
          | ok a s2 => intro h2; exact LateEq.trans hf h2
          | err m s2 => intro h2; exact LateEq.trans hf h2
          | bad m => intro _; trivial
        · exact hf
        · trivial
    · intro s fs
      cases fs with
      | nil => simp only [wantVals]; exact LateEq.refl _
      | cons f fs =>
        simp only [wantVals]
        have hf := ihF s [] f
        split <;> rename_i hff <;> rw [hff] at hf
        · rename_i r s'
          have h2 := ihV s' fs
          revert h2
          cases wantVals g fuel s' fs with
          | ok a s2 => intro h2; exact LateEq.trans hf h2
          | err m s2 => intro h2; exact LateEq.trans hf h2
          | bad m => intro _; trivial
        · exact hf
        · trivial

/-- `Work::want_file` never changes which builds are queued, running, done or failed. -/
theorem want_lateEq' (g : Graph) (s s' : S) (f : Nat) (h : want g s f = .ok () s') : LateEq s s' := by
  unfold want at h
  have := (want_lateEq g (wantFuel g)).1 s [] f
  split at h <;> rename_i hw
  · cases h; rw [hw] at this; exact this
  · cases h
  · cases h

/-- ... also when it fails part-way (e.g. with a dependency cycle). -/
theorem want_lateEq_err (g : Graph) (s s' : S) (f : Nat) (m : String) (h : want g s f = .err m s') :
    LateEq s s' := by
  unfold want at h
  have := (want_lateEq g (wantFuel g)).1 s [] f
  split at h <;> rename_i hw
  · cases h
  · cases h; rw [hw] at this; exact this
  · cases h

end N2V.Sched
