/-
  The want phase (`want_file`/`want_build` and their loops) only ever assigns `Want` or `Ready`,
  and only to builds that were not yet queued/running/finished: it never creates, removes or
  changes a `Queued`, `Running`, `Done` or `Failed` state.  Joint induction on the fuel of the
  four mutually recursive functions (this covers the re-entrant second visit of a build that
  validation edges make possible).
-/
import N2V.Lemmas.SchedRun
namespace N2V.Sched

def late (x : St) : Prop := x = .queued ∨ x = .running ∨ x = .done ∨ x = .failed

/-- `s'` has exactly the same queued/running/done/failed builds as `s`. -/
def LateEq (s s' : S) : Prop :=
  (∀ b x, late x → (s'.st b = x ↔ s.st b = x)) ∧ s'.running = s.running ∧
  s'.tasksFailed = s.tasksFailed ∧ s'.tasksRun = s.tasksRun

theorem LateEq.refl (s : S) : LateEq s s := ⟨fun _ _ _ => Iff.rfl, rfl, rfl, rfl⟩

theorem LateEq.trans {a b c : S} (h1 : LateEq a b) (h2 : LateEq b c) : LateEq a c :=
  ⟨fun x y hy => (h2.1 x y hy).trans (h1.1 x y hy), h2.2.1.trans h1.2.1,
   h2.2.2.1.trans h1.2.2.1, h2.2.2.2.trans h1.2.2.2⟩

/-- Setting a not-late build to `Want`/`Ready` keeps the late states. -/
theorem set_lateEq {g : Graph} {s s' : S} {id : Nat} {new : St} (h : set g s id new = .ok s')
    (hnew : new = .want ∨ new = .ready) (hprev : ¬ late (s.st id)) : LateEq s s' := by
  obtain ⟨_, _, -, -, hst, -, -, -, -, hr, htf, htr, -⟩ := set_spec h
  refine ⟨?_, hr, htf, htr⟩
  intro b x hx
  rw [hst]
  by_cases e : b = id
  · subst e
    simp
    constructor
    · intro e; subst e; rcases hnew with rfl | rfl <;> simp [late] at hx
    · intro e; rw [e] at hprev; exact absurd hx hprev
  · rw [upd_other _ _ _ _ e]

theorem want_lateEq (g : Graph) : ∀ fuel : Nat,
    (∀ s stack f r s', wantFile g fuel s stack f = .ok (r, s') → LateEq s s') ∧
    (∀ s stack id r s', wantBuild g fuel s stack id = .ok (r, s') → LateEq s s') ∧
    (∀ s stack fs rd r s', wantIns g fuel s stack fs rd = .ok (r, s') → LateEq s s') ∧
    (∀ s fs s', wantVals g fuel s fs = .ok s' → LateEq s s') := by
  intro fuel
  induction fuel with
  | zero => refine ⟨?_, ?_, ?_, ?_⟩ <;> intros <;> simp_all [wantFile, wantBuild, wantIns, wantVals]
  | succ fuel ih =>
    obtain ⟨ihF, ihB, ihI, ihV⟩ := ih
    refine ⟨?_, ?_, ?_, ?_⟩
    · intro s stack f r s' h
      unfold wantFile at h
      split at h
      · cases h
      · split at h
        · cases h; exact LateEq.refl _
        · split at h <;> try cases h
          rename_i hb
          exact ihB _ _ _ _ _ hb
    · intro s stack id r s' h
      unfold wantBuild at h
      split at h
      · cases h; exact LateEq.refl _
      · rename_i hunk
        simp at hunk
        split at h <;> try cases h
        rename_i rd s1 hi
        have e1 := ihI _ _ _ _ _ _ hi
        have hprev : ¬ late (s1.st id) := by
          intro hl
          have := (e1.1 id (s1.st id) hl).mp rfl
          rw [hunk] at this
          rw [← this] at hl
          simp [late] at hl
        simp only [] at h
        generalize hstate : (if rd = true then St.ready else St.want) = state at h
        have hnew : state = .want ∨ state = .ready := by rw [← hstate]; split <;> simp
        split at h <;> try cases h
        rename_i s2 hs
        split at h <;> try cases h
        rename_i s3 hv
        have e2 := set_lateEq hs hnew hprev
        exact (e1.trans e2).trans (ihV _ _ _ hv)
    · intro s stack fs rd r s' h
      cases fs with
      | nil => simp only [wantIns] at h; cases h; exact LateEq.refl _
      | cons f fs =>
        simp only [wantIns] at h
        split at h <;> try cases h
        rename_i r1 s1 hf
        exact (ihF _ _ _ _ _ hf).trans (ihI _ _ _ _ _ _ h)
    · intro s fs s' h
      cases fs with
      | nil => simp only [wantVals] at h; cases h; exact LateEq.refl _
      | cons f fs =>
        simp only [wantVals] at h
        split at h <;> try cases h
        rename_i r1 s1 hf
        exact (ihF _ _ _ _ _ hf).trans (ihV _ _ _ h)

/-- `Work::want_file` never changes which builds are queued, running, done or failed. -/
theorem want_lateEq' (g : Graph) (s s' : S) (f : Nat) (h : want g s f = .ok s') : LateEq s s' := by
  unfold want at h
  split at h <;> try cases h
  rename_i r s1 hw
  exact (want_lateEq g _).1 _ _ _ _ _ hw

end N2V.Sched
