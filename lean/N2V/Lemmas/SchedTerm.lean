/-
  Termination of `Work::run`: the model's fuel is never the reason a run ends.  Every iteration
  of the outer loop that continues moves some build forward in
  Unknown < Want < Ready < Queued < Running < Done < Failed, and the inner loops (`pop_queued`/
  start, `pop_ready`) each consume a build of a finite stock.
-/
import N2V.Lemmas.SchedBuild
import N2V.Lemmas.TraceFacts
namespace N2V.Sched

/-- Sum of the state codes of the builds. -/
def msum : Nat → (Nat → St) → Nat
  | 0, _ => 0
  | n + 1, st => msum n st + (st n).code

theorem code_le (x : St) : x.code ≤ 6 := by cases x <;> simp [St.code]

theorem msum_le (n : Nat) (st : Nat → St) : msum n st ≤ 6 * n := by
  induction n with
  | zero => simp [msum]
  | succ n ih => rw [msum]; have := code_le (st n); omega

theorem msum_unknown (n : Nat) : msum n (fun _ => St.unknown) = 0 := by
  induction n with
  | zero => rfl
  | succ n ih => rw [msum, ih]; rfl

theorem msum_congr (n : Nat) (st st' : Nat → St) (h : ∀ b, b < n → st b = st' b) : msum n st = msum n st' := by
  induction n with
  | zero => rfl
  | succ n ih => rw [msum, msum, ih (fun b hb => h b (by omega)), h n (by omega)]

theorem msum_upd (n : Nat) (st : Nat → St) (id : Nat) (new : St) (hid : id < n) :
    msum n (upd st id new) + (st id).code = msum n st + new.code := by
  induction n with
  | zero => omega
  | succ n ih =>
    rw [msum, msum]
    by_cases e : id = n
    · subst e
      have : msum id (upd st id new) = msum id st :=
        msum_congr id _ _ (fun b hb => upd_other _ _ _ _ (by omega))
      rw [this]; simp [upd]; omega
    · have := ih (by omega)
      rw [upd_other _ _ _ _ (Ne.symm e)]
      omega

/-- Forward movement recorded in a trace since the last (re)load. -/
def gain : List Ev → Nat
  | [] => 0
  | .load :: _ => 0
  | .set _ prev new _ _ :: tr => gain tr + (new.code - prev.code)
  | _ :: tr => gain tr

theorem legal_code {a b : St} (h : legal a b = true) : a.code ≤ b.code := by
  cases a <;> cases b <;> simp [legal, St.code] at h ⊢

/-- In a good trace the forward movement equals the sum of the current state codes: it can
    never exceed six per build. -/
theorem gain_eq {g : Graph} {par : Nat} {sh : List (Bytes × Nat)} {tr : List Ev} (h : okTrace g par sh tr = true) :
    gain tr = msum g.nBuilds (stOf tr) := by
  induction tr with
  | nil => simp [gain, stOf, msum_unknown]
  | cons e t ih =>
    have h' := okTrace_cons.mp h
    cases e with
    | load => simp [gain, stOf, msum_unknown]
    | update cs => simpa [gain, stOf] using ih h'.2
    | start b => simpa [gain, stOf] using ih h'.2
    | finish b t' => simpa [gain, stOf] using ih h'.2
    | set id prev new cs pend =>
      obtain ⟨hid, hprev, hleg, -⟩ := okEv_set h'.1
      have hle := legal_code hleg
      have hm := msum_upd g.nBuilds (stOf t) id new hid
      rw [← hprev] at hm
      simp only [gain, stOf]
      rw [ih h'.2]
      omega

theorem gain_le {g : Graph} {par : Nat} {sh : List (Bytes × Nat)} {s : S} (ti : TInv g par sh s) :
    gain s.trace ≤ 6 * g.nBuilds := by
  rw [gain_eq ti.ok]; exact msum_le _ _

/-! ### What each step adds -/

theorem set_gain {g : Graph} {s s' : S} {id : Nat} {new : St} (h : set g s id new = .ok s') :
    gain s'.trace = gain s.trace + (new.code - (s.st id).code) := by
  rw [set_trace h]; rfl

theorem promote_gain {g : Graph} (l : List Nat) (s s' : S) (h : promote g s l = .ok s') :
    gain s.trace ≤ gain s'.trace := by
  induction l generalizing s with
  | nil => simp [promote] at h; subst h; exact Nat.le_refl _
  | cons d ds ih =>
    unfold promote at h
    split at h
    · rename_i s1 hs
      have := set_gain hs
      have := ih s1 h
      omega
    · rename_i hne; exact absurd h (hne s')

theorem readyDependents_gain {g : Graph} {s s' : S} {id : Nat} {perm : List Nat}
    (hst : s.st id = .ready ∨ s.st id = .running) (h : readyDependents g s id perm = .ok s') :
    gain s.trace + 1 ≤ gain s'.trace := by
  unfold readyDependents at h
  split at h
  · rename_i s1 hs
    have h1 := set_gain hs
    have h2 := promote_gain _ s1 s' h
    rcases hst with e | e <;> rw [e] at h1 <;> simp [St.code] at h1 <;> omega
  · rename_i hne; exact absurd h (hne s')

theorem enqueueRun_gain {g : Graph} {s s1 : S} {id : Nat} (hst : s.st id = .ready)
    (h : enqueueRun g s id = .inl s1) : gain s.trace + 1 ≤ gain s1.trace := by
  unfold enqueueRun at h
  split at h
  · rename_i s2 hs
    split at h
    · cases h
      have h1 := set_gain hs
      rw [hst] at h1
      simp [St.code] at h1
      show gain s.trace + 1 ≤ gain s2.trace
      omega
    · cases h
  · rename_i r hne; exact absurd (resToRun_inl h) (hne s1)


theorem start_gain {g : Graph} {par : Nat} {s s1 : S} {id : Nat} {pools : List Pool} (inv : Inv g par s)
    (hpop : popQueued s.pools = some (id, pools)) (h : set g { s with pools := pools } id .running = .ok s1) :
    gain ({ s1 with running := s1.running + 1, trace := Ev.start id :: s1.trace } : S).trace = gain s.trace + 1 := by
  obtain ⟨p, q, hp, hq, -, -⟩ := popQueued_spec _ _ _ inv.poolNames hpop
  have hstid : s.st id = .queued := (inv.queuedSt p hp id (by simp [hq])).1
  have h1 := set_gain h
  show gain s1.trace = gain s.trace + 1
  rw [h1]
  show gain s.trace + (St.running.code - (s.st id).code) = _
  rw [hstid]; rfl

/-- The start loop never loses ground; and it gained if it reports progress it did not start with. -/
theorem startLoop_gain {g : Graph} {par : Nat} (fuel : Nat) (s : S) (p : Bool) (inv : Inv g par s)
    (s' : S) (p' : Bool) (h : startLoop g par fuel s p = .inl (s', p')) :
    gain s.trace ≤ gain s'.trace ∧ (p = false → p' = true → gain s.trace + 1 ≤ gain s'.trace) := by
  induction fuel generalizing s p with
  | zero => simp [startLoop] at h
  | succ fuel ih =>
    unfold startLoop at h
    split at h
    · rename_i hlt
      split at h
      · cases h; exact ⟨Nat.le_refl _, fun a b => by rw [a] at b; cases b⟩
      · rename_i id pools hpop
        split at h
        · rename_i s1 hs
          have g1 := start_gain inv hpop (resToRun_inl hs)
          have := (ih _ true (start_inv inv hlt hpop (resToRun_inl hs)) h).1
          exact ⟨by omega, fun _ _ => by omega⟩
        · cases h
    · cases h; exact ⟨Nat.le_refl _, fun a b => by rw [a] at b; cases b⟩

theorem readyLoop_gain {E : Type} {g : Graph} {par : Nat} (c : Choices E) (fuel : Nat) (s : S) (e : E)
    (perms : List (List Nat)) (p : Bool) (inv : Inv g par s)
    (s' : S) (e' : E) (perms' : List (List Nat)) (p' : Bool)
    (h : readyLoop g c fuel s e perms p = .inl (s', e', perms', p')) :
    gain s.trace ≤ gain s'.trace ∧ (p = false → p' = true → gain s.trace + 1 ≤ gain s'.trace) := by
  induction fuel generalizing s e perms p with
  | zero => simp [readyLoop] at h
  | succ fuel ih =>
    unfold readyLoop at h
    split at h
    · cases h; exact ⟨Nat.le_refl _, fun a b => by rw [a] at b; cases b⟩
    · rename_i id rest hr
      have hstid : s.st id = .ready := inv.readySt id (by simp [hr])
      simp only [] at h
      split at h
      · cases h
      · rename_i dirty e1 hc
        split at h
        · split at h
          · rename_i s1 hs
            have g1 := readyDependents_gain (s := { s with ready := rest }) (Or.inl hstid) (resToRun_inl hs)
            have := (ih _ _ _ _ (clean_inv inv hr (resToRun_inl hs)) h).1
            have e0 : gain ({ s with ready := rest } : S).trace = gain s.trace := rfl
            exact ⟨by omega, fun _ _ => by omega⟩
          · cases h
        · split at h
          · split at h
            · rename_i s1 hs
              have g1 := readyDependents_gain (s := { s with ready := rest }) (Or.inl hstid) (resToRun_inl hs)
              have := (ih _ _ _ _ (clean_inv inv hr (resToRun_inl hs)) h).1
              have e0 : gain ({ s with ready := rest } : S).trace = gain s.trace := rfl
              exact ⟨by omega, fun _ _ => by omega⟩
            · cases h
          · split at h
            · rename_i s1 hs
              have g1 := enqueueRun_gain (s := { s with ready := rest }) hstid hs
              have := (ih _ _ _ _ (enqueue_inv inv hr hs) h).1
              have e0 : gain ({ s with ready := rest } : S).trace = gain s.trace := rfl
              exact ⟨by omega, fun _ _ => by omega⟩
            · cases h

/-! ### The inner loops' stocks -/

def cntQ (g : Graph) (s : S) : Nat := cnt g.nBuilds (fun b => s.st b == .queued)
def cntWR (g : Graph) (s : S) : Nat := cnt g.nBuilds (fun b => s.st b == .want || s.st b == .ready)

/-- Each start takes one build out of the `Queued` stock: `nBuilds + 1` rounds always suffice. -/
theorem startLoop_no_fuel {g : Graph} {par : Nat} (fuel : Nat) (s : S) (p : Bool) (inv : Inv g par s)
    (hf : cntQ g s < fuel) (se : S) : startLoop g par fuel s p ≠ .inr (se, .fuel) := by
  induction fuel generalizing s p with
  | zero => omega
  | succ fuel ih =>
    unfold startLoop
    split
    · rename_i hlt
      split
      · simp
      · rename_i id pools hpop
        split
        · rename_i s1 hs
          apply ih _ _ (start_inv inv hlt hpop (resToRun_inl hs))
          -- the stock of queued builds shrank by one
          obtain ⟨p0, q, hp0, hq, -, -⟩ := popQueued_spec _ _ _ inv.poolNames hpop
          have hstid : s.st id = .queued := (inv.queuedSt p0 hp0 id (by simp [hq])).1
          have hid : id < g.nBuilds := inv.valid id (by rw [hstid]; simp)
          obtain ⟨_, _, -, -, hst1, -⟩ := set_spec (resToRun_inl hs)
          have hc := cnt_upd g s.st id .running hid (fun x _ => x == .queued)
          simp [hstid] at hc
          have : cntQ g { s1 with running := s1.running + 1, trace := Ev.start id :: s1.trace } + 1 = cntQ g s := by
            unfold cntQ
            show cnt g.nBuilds (fun b => s1.st b == .queued) + 1 = _
            rw [hst1]
            show cnt g.nBuilds (fun b => upd s.st id .running b == .queued) + 1 = _
            omega
          omega
        · rename_i r hr
          intro e; cases e
          unfold resToRun at hr
          split at hr <;> cases hr
    · simp

theorem promote_cntWR {g : Graph} (l : List Nat) (s s' : S) (hw : ∀ d ∈ l, s.st d = .want ∧ d < g.nBuilds)
    (hl : l.Nodup) (h : promote g s l = .ok s') : cntWR g s' = cntWR g s := by
  induction l generalizing s with
  | nil => simp [promote] at h; subst h; rfl
  | cons d ds ih =>
    unfold promote at h
    split at h
    · rename_i s1 hs
      obtain ⟨_, _, -, -, hst1, -⟩ := set_spec hs
      have hd := hw d (by simp)
      simp at hl
      have hc := cnt_upd g s.st d .ready hd.2 (fun x _ => x == .want || x == .ready)
      simp [hd.1] at hc
      have e1 : cntWR g s1 = cntWR g s := by
        unfold cntWR; rw [hst1]
        show cnt g.nBuilds (fun b => upd s.st d .ready b == .want || upd s.st d .ready b == .ready) = _
        omega
      rw [← e1]
      apply ih s1 _ hl.2 h
      intro x hx
      have hne : x ≠ d := fun e => hl.1 (e ▸ hx)
      exact ⟨by rw [hst1, upd_other _ _ _ _ hne]; exact (hw x (by simp [hx])).1, (hw x (by simp [hx])).2⟩
    · rename_i hne; exact absurd h (hne s')

theorem readyDependents_cntWR {g : Graph} {s s' : S} {id : Nat} {perm : List Nat} (hst : s.st id = .ready)
    (hid : id < g.nBuilds) (hv : ∀ b, s.st b ≠ .unknown → b < g.nBuilds)
    (h : readyDependents g s id perm = .ok s') : cntWR g s' + 1 = cntWR g s := by
  unfold readyDependents at h
  split at h
  · rename_i s1 hs
    obtain ⟨_, _, -, -, hst1, -⟩ := set_spec hs
    have hc := cnt_upd g s.st id .done hid (fun x _ => x == .want || x == .ready)
    simp [hst] at hc
    have e1 : cntWR g s1 + 1 = cntWR g s := by
      unfold cntWR; rw [hst1]
      show cnt g.nBuilds (fun b => upd s.st id .done b == .want || upd s.st id .done b == .ready) + 1 = _
      omega
    have := promote_cntWR _ s1 s' (fun d hd => by
      have hm := mem_orderBy _ _ _ hd
      have hw := (promotable_spec g s1 id d hm).1
      refine ⟨hw, ?_⟩
      have hne : d ≠ id := by intro e; subst e; rw [hst1] at hw; simp at hw
      rw [hst1, upd_other _ _ _ _ hne] at hw
      exact hv d (by rw [hw]; simp)) (nodup_orderBy _ _ (nodup_dedup _)) h
    omega
  · rename_i hne; exact absurd h (hne s')

theorem enqueueRun_cntWR {g : Graph} {s s1 : S} {id : Nat} (hst : s.st id = .ready) (hid : id < g.nBuilds)
    (h : enqueueRun g s id = .inl s1) : cntWR g s1 + 1 = cntWR g s := by
  unfold enqueueRun at h
  split at h
  · rename_i s2 hs
    split at h
    · cases h
      obtain ⟨_, _, -, -, hst2, -⟩ := set_spec hs
      have hc := cnt_upd g s.st id .queued hid (fun x _ => x == .want || x == .ready)
      simp [hst] at hc
      unfold cntWR
      show cnt g.nBuilds (fun b => s2.st b == .want || s2.st b == .ready) + 1 = _
      rw [hst2]
      show cnt g.nBuilds (fun b => upd s.st id .queued b == .want || upd s.st id .queued b == .ready) + 1 = _
      omega
    · cases h
  · rename_i r hne; exact absurd (resToRun_inl h) (hne s1)

/-- Each round of the ready loop takes one build out of the `Want`/`Ready` stock. -/
theorem readyLoop_no_fuel {E : Type} {g : Graph} {par : Nat} (c : Choices E) (fuel : Nat) (s : S) (e : E)
    (perms : List (List Nat)) (p : Bool) (inv : Inv g par s) (hf : cntWR g s < fuel) (se : S) (e' : E) :
    readyLoop g c fuel s e perms p ≠ .inr (se, e', .fuel) := by
  induction fuel generalizing s e perms p with
  | zero => omega
  | succ fuel ih =>
    unfold readyLoop
    split
    · simp
    · rename_i id rest hr
      have hstid : s.st id = .ready := inv.readySt id (by simp [hr])
      have hid : id < g.nBuilds := inv.valid id (by rw [hstid]; simp)
      have e0 : cntWR g { s with ready := rest } = cntWR g s := rfl
      simp only []
      split
      · simp
      · split
        · split
          · rename_i s1 hs
            have := readyDependents_cntWR (s := { s with ready := rest }) hstid hid inv.valid (resToRun_inl hs)
            exact ih _ _ _ _ (clean_inv inv hr (resToRun_inl hs)) (by omega)
          · rename_i se' r hs
            intro e; cases e
            unfold resToRun at hs
            split at hs <;> cases hs
        · split
          · split
            · rename_i s1 hs
              have := readyDependents_cntWR (s := { s with ready := rest }) hstid hid inv.valid (resToRun_inl hs)
              exact ih _ _ _ _ (clean_inv inv hr (resToRun_inl hs)) (by omega)
            · rename_i se' r hs
              intro e; cases e
              unfold resToRun at hs
              split at hs <;> cases hs
          · split
            · rename_i s1 hs
              have := enqueueRun_cntWR (s := { s with ready := rest }) hstid hid hs
              exact ih _ _ _ _ (enqueue_inv inv hr hs) (by omega)
            · rename_i se' r hs
              intro e; cases e
              unfold enqueueRun at hs
              split at hs
              · split at hs <;> cases hs
              · rename_i r' _
                unfold resToRun at hs
                split at hs <;> cases hs


theorem cnt_le' (n : Nat) (p : Nat → Bool) : cnt n p < n + 1 := by have := cnt_le n p; omega

/-- **`Work::run` ends for a reason of its own** (success, failure, interruption, error, or the
    environment providing no further completion) — never because the model's fuel ran out: with
    `runFuel g = 6·(#builds + 1) + 2` rounds of the outer loop and `#builds + 1` of each inner loop. -/
theorem runLoop_no_fuel {E : Type} {g : Graph} {par : Nat} {sh : List (Bytes × Nat)} (c : Choices E)
    (fuel : Nat) (s : S) (e : E) (perms : List (List Nat)) (fin : List (Nat × Term))
    (inv : Inv g par s) (ti : TInv g par sh s) (hf : 6 * g.nBuilds + 2 ≤ fuel + gain s.trace) :
    (runLoop g par c fuel s e perms fin).result ≠ .fuel := by
  induction fuel generalizing s e perms fin with
  | zero => have := gain_le ti; omega
  | succ fuel ih =>
    unfold runLoop
    by_cases hp : s.pending ≤ 0
    · simp only [hp, if_true]; simp
    · simp only [hp, if_false]
      have inv0 : Inv g par { s with trace := Ev.update (countsList s.counts) :: s.trace } :=
        Inv.of_sameCore (s := s) ⟨rfl, rfl, rfl, rfl, rfl, rfl⟩ inv
      have ti0 := update_tinv (par := par) (shape := sh) inv.toInvCore.exact ti
      have g0 : gain ({ s with trace := Ev.update (countsList s.counts) :: s.trace } : S).trace = gain s.trace := rfl
      cases h1 : startLoop g par (g.nBuilds + 1) { s with trace := Ev.update (countsList s.counts) :: s.trace } false with
      | inr r =>
        obtain ⟨se, rr⟩ := r
        simp only []
        intro hb
        rw [hb] at h1
        exact startLoop_no_fuel _ _ _ inv0 (cnt_le' _ _) _ h1
      | inl r =>
        obtain ⟨s1, p1⟩ := r
        simp only []
        obtain ⟨i1, t1⟩ := startLoop_inl_inv2 _ _ _ inv0 ti0 _ _ h1
        have gg1 := startLoop_gain _ _ _ inv0 _ _ h1
        cases h2 : readyLoop g c (g.nBuilds + 1) s1 e perms false with
        | inr r =>
          obtain ⟨se, e2, rr⟩ := r
          simp only []
          intro hb
          rw [hb] at h2
          exact readyLoop_no_fuel c _ _ _ _ _ i1 (cnt_le' _ _) _ _ h2
        | inl r =>
          obtain ⟨s2, e2, perms2, p2⟩ := r
          simp only []
          obtain ⟨i2, t2⟩ := readyLoop_inl_inv2 c _ _ _ _ _ i1 t1 _ _ _ _ h2
          have gg2 := readyLoop_gain c _ _ _ _ _ i1 _ _ _ _ h2
          by_cases hpp : (p1 || p2) = true
          · simp only [hpp, if_true]
            apply ih _ _ _ _ i2 t2
            have : gain s.trace + 1 ≤ gain s2.trace := by
              cases p1 with
              | true => have := gg1.2 rfl rfl; have := gg2.1; omega
              | false =>
                have hp2 : p2 = true := by simpa using hpp
                have := gg1.1; have := gg2.2 rfl hp2; omega
            omega
          · simp only [hpp, Bool.false_eq_true, if_false]
            by_cases hrun : s2.running ≤ 0
            · simp only [hrun, if_true]; split <;> simp
            · simp only [hrun, if_false]
              cases fin with
              | nil => simp
              | cons ft fin' =>
                obtain ⟨id, t⟩ := ft
                simp only []
                by_cases hst : s2.st id ≠ .running
                · rw [if_pos hst]; simp
                · rw [if_neg hst]
                  have hst' : s2.st id = .running := by simpa using hst
                  have t3 := finish_tinv t t2 hst'
                  have hid : id < g.nBuilds := i2.valid id (by rw [hst']; simp)
                  have hg2 : gain s.trace ≤ gain s2.trace := by have := gg1.1; have := gg2.1; omega
                  cases t with
                  | interrupted => simp
                  | failure =>
                    simp only []
                    cases hfl : s2.failuresLeft with
                    | none =>
                      simp only []
                      generalize h4 : resToRun _ _ = r4
                      cases r4 with
                      | inl s4 =>
                        simp only []
                        have i4 : Inv g par s4 := by
                          refine failed_inv _ i2 hst' ?_ ?_ (resToRun_inl h4)
                          · exact ⟨rfl, rfl, rfl, rfl, rfl⟩
                          · rfl
                        have t4 : TInv g par sh s4 := by
                          refine set_tinv ?_ i4.toInvCore.exact (resToRun_inl h4) hid ?_ (by intro e; cases e)
                          · exact t3.of_same rfl rfl rfl
                          · show legal (s2.st id) .failed = true; rw [hst']; rfl
                        have g4 := set_gain (resToRun_inl h4)
                        refine ih _ _ _ _ i4 t4 ?_
                        have : gain s4.trace = gain s2.trace + (St.failed.code - (s2.st id).code) := g4
                        rw [hst'] at this
                        simp [St.code] at this
                        omega
                      | inr r =>
                        obtain ⟨se, rr⟩ := r
                        simp only []
                        intro hb; rw [hb] at h4
                        unfold resToRun at h4
                        split at h4 <;> cases h4
                    | some n =>
                      simp only []
                      by_cases hn0 : n = 0
                      · rw [if_pos hn0]; simp
                      · rw [if_neg hn0]
                        by_cases hn1 : n - 1 = 0
                        · rw [if_pos hn1]; simp
                        · rw [if_neg hn1]
                          generalize h4 : resToRun _ _ = r4
                          cases r4 with
                          | inl s4 =>
                            simp only []
                            have i4 : Inv g par s4 := by
                              refine failed_inv _ i2 hst' ?_ ?_ (resToRun_inl h4)
                              · exact ⟨rfl, rfl, rfl, rfl, rfl⟩
                              · rfl
                            have t4 : TInv g par sh s4 := by
                              refine set_tinv ?_ i4.toInvCore.exact (resToRun_inl h4) hid ?_ (by intro e; cases e)
                              · exact t3.of_same rfl rfl rfl
                              · show legal (s2.st id) .failed = true; rw [hst']; rfl
                            have g4 := set_gain (resToRun_inl h4)
                            refine ih _ _ _ _ i4 t4 ?_
                            have : gain s4.trace = gain s2.trace + (St.failed.code - (s2.st id).code) := g4
                            rw [hst'] at this
                            simp [St.code] at this
                            omega
                          | inr r =>
                            obtain ⟨se, rr⟩ := r
                            simp only []
                            intro hb; rw [hb] at h4
                            unfold resToRun at h4
                            split at h4 <;> cases h4
                  | success =>
                    simp only []
                    generalize h4 : resToRun _ _ = r4
                    cases r4 with
                    | inl s4 =>
                      simp only []
                      have i4 : Inv g par s4 := by
                        refine succeeded_inv _ i2 hst' ?_ ?_ (resToRun_inl h4)
                        · exact ⟨rfl, rfl, rfl, rfl, rfl⟩
                        · rfl
                      have t4 : TInv g par sh s4 := by
                        refine succeeded_tinv _ i2 ?_ hst' ?_ ?_ (resToRun_inl h4)
                        · exact t3.of_same rfl rfl rfl
                        · exact ⟨rfl, rfl, rfl, rfl, rfl⟩
                        · rfl
                      have g4 : gain s2.trace + 1 ≤ gain s4.trace := by
                        have h5 := resToRun_inl h4
                        have := readyDependents_gain (Or.inr (by exact hst')) h5
                        exact this
                      refine ih _ _ _ _ i4 t4 ?_
                      omega
                    | inr r =>
                      obtain ⟨se, rr⟩ := r
                      simp only []
                      intro hb; rw [hb] at h4
                      unfold resToRun at h4
                      split at h4 <;> cases h4


end N2V.Sched

namespace N2V.Run
open N2V N2V.Sched

theorem ofRun_fuel (r : RunResult) (h : ofRun r = .fuel) : r = .fuel := by
  cases r <;> simp [ofRun] at h ⊢

theorem runFuel_enough (g : Graph) (k : Nat) : 6 * g.nBuilds + 2 ≤ runFuel g + k := by
  unfold runFuel; omega

theorem phase2_no_fuel {E : Type} {g : Graph} (gok : GraphOK g) (a : Args) (c : Choices E) (s2 : S) (e : E)
    (perms : List (List Nat)) (fin : List (Nat × Term)) (n0 : Nat) (inv : Inv g a.par s2)
    (ti : TInv g a.par (shapeOf a) s2) : (phase2 g a c s2 e perms fin n0).2.2 ≠ .fuel := by
  unfold phase2
  have hw : WRRel g a.par s2 (if !a.targets.isEmpty then wantTargets g a s2 a.targets
      else if !a.defaults.isEmpty then wantAll g s2 a.defaults
      else wantAll g s2 ((List.range g.nFiles).filter (· ≠ a.manifest))) := by
    split
    · exact wantTargets_rel a gok _ _ _ (WRel.refl inv)
    · split
      · exact wantAll_rel gok _ _ _ (WRel.refl inv)
      · exact wantAll_rel gok _ _ _ (WRel.refl inv)
  simp only []
  generalize (if !a.targets.isEmpty then wantTargets g a s2 a.targets
      else if !a.defaults.isEmpty then wantAll g s2 a.defaults
      else wantAll g s2 ((List.range g.nFiles).filter (· ≠ a.manifest))) = w at hw ⊢
  cases w with
  | ok u s3 =>
    simp only []
    have hr := runLoop_no_fuel c (runFuel g) s3 e perms fin hw.inv (hw.tinv _ ti) (runFuel_enough g _)
    cases hres : (runLoop g a.par c (runFuel g) s3 e perms fin).result with
    | ok b => cases b <;> simp [ofRun]
    | fuel => exact absurd hres hr
    | _ => simp [ofRun]
  | err m s3 => simp
  | bad m => simp

/-- **The run loops of `run::build` always end for a reason of their own**: the outcome "the
    model ran out of fuel" is unreachable in `Work::run` (both phases), for every graph, argument
    vector and environment behaviour. -/
theorem build_no_fuel {E : Type} {g : Graph} (gok : GraphOK g) (a : Args) (c : Choices E) (e : E) :
    (build g a c e).2.2 ≠ .fuel := by
  unfold build
  simp only []
  have hw := want_rel gok (fresh a) a.manifest (fresh_inv g a)
  cases hwant : want g (fresh a) a.manifest with
  | ok u s1 =>
    rw [hwant] at hw
    simp only []
    have t1 := hw.tinv _ (fresh_tinv g a)
    have hr := runLoop_no_fuel c (runFuel g) s1 e c.perms c.finishes hw.inv t1 (runFuel_enough g _)
    cases hres : (runLoop g a.par c (runFuel g) s1 e c.perms c.finishes).result with
    | ok b =>
      cases b with
      | true =>
        simp only []
        split
        · simp
        · exact phase2_no_fuel gok a c _ _ _ _ 0 (runLoop_inv c _ _ _ _ _ hw.inv hres)
            (runLoop_tinv c _ _ _ _ _ hw.inv t1)
      | false => simp [ofRun]
    | fuel => exact absurd hres hr
    | _ => simp [ofRun]
  | err m s1 => simp
  | bad m => simp

theorem buildReloaded_no_fuel {E : Type} {g : Graph} (gok : GraphOK g) (a : Args) (c : Choices E) (e : E)
    (n0 : Nat) : (buildReloaded g a c e n0).2.2 ≠ .fuel :=
  phase2_no_fuel gok a c _ _ _ _ n0 (fresh_inv g a) (fresh_tinv g a)

end N2V.Run

namespace N2V.Sched

end N2V.Sched
