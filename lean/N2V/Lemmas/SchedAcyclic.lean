/-
  Completeness of the cycle diagnosis (C06): when `Work::want_file` succeeds, no build it marked
  lies on a cycle of ordering edges.  `want_build` marks a build only AFTER its ordering inputs
  have been walked (post-order), so at that moment every ordering ancestor is marked already and
  the build itself is not - which excludes a path back to it.
-/
import N2V.Lemmas.SchedComplete
namespace N2V.Sched

/-- Marked builds have their ordering producers marked. -/
def ClosedO (g : Graph) (s : S) : Prop :=
  ∀ b, s.st b ≠ .unknown → ∀ f ∈ (g.build b).ordering, ∀ p, g.producer f = some p → s.st p ≠ .unknown

/-- No marked build is its own ordering ancestor. -/
def AcycM (g : Graph) (s : S) : Prop := ∀ b, s.st b ≠ .unknown → ¬ Anc g b b

structure AI (g : Graph) (s : S) : Prop where
  closed : ClosedO g s
  acyc : AcycM g s

theorem closed_anc {g : Graph} {s : S} (hc : ClosedO g s) {b p : Nat} (ha : Anc g b p) :
    s.st b ≠ .unknown → s.st p ≠ .unknown := by
  induction ha with
  | direct hf hp => intro hb; exact hc _ hb _ hf _ hp
  | step _ _ ih1 ih2 => intro hb; exact ih2 (ih1 hb)

/-- The first edge of a path. -/
theorem anc_first {g : Graph} {b c : Nat} (ha : Anc g b c) :
    ∃ f p, f ∈ (g.build b).ordering ∧ g.producer f = some p ∧ (p = c ∨ Anc g p c) := by
  induction ha with
  | direct hf hp => exact ⟨_, _, hf, hp, Or.inl rfl⟩
  | step _ h2 ih1 _ =>
    obtain ⟨f, p, hf, hp, h⟩ := ih1
    rcases h with rfl | h
    · exact ⟨f, _, hf, hp, Or.inr h2⟩
    · exact ⟨f, p, hf, hp, Or.inr (Anc.step h h2)⟩

/-- Marking a build whose ordering producers are all marked keeps the invariant. -/
theorem ai_mark {g : Graph} {s1 s2 : S} {id : Nat} {state : St} (h : AI g s1) (hst : s2.st = upd s1.st id state)
    (hne : state ≠ .unknown)
    (hprod : ∀ f ∈ (g.build id).ordering, ∀ p, g.producer f = some p → s1.st p ≠ .unknown) : AI g s2 := by
  have mono : ∀ b, s1.st b ≠ .unknown → s2.st b ≠ .unknown := by
    intro b hb; rw [hst]; unfold upd; by_cases e : b = id
    · simp [e, hne]
    · simp [e, hb]
  have old : ∀ b, b ≠ id → s2.st b ≠ .unknown → s1.st b ≠ .unknown := by
    intro b hb h2; rw [hst] at h2; unfold upd at h2; simpa [hb] using h2
  refine ⟨?_, ?_⟩
  · intro b hb f hf p hp
    by_cases e : b = id
    · subst e; exact mono p (hprod f hf p hp)
    · exact mono p (h.closed b (old b e hb) f hf p hp)
  · intro b hb ha
    by_cases e : b = id
    · subst e
      by_cases hm : s1.st b ≠ .unknown
      · exact h.acyc b hm ha
      · obtain ⟨f, p, hf, hp, hc⟩ := anc_first ha
        have hpm := hprod f hf p hp
        rcases hc with rfl | hc
        · exact hm hpm
        · exact hm (closed_anc h.closed hc hpm)
    · exact h.acyc b (old b e hb) ha

def AF (g : Graph) (f : Nat) : WR Bool → Prop
  | .ok _ s' => AI g s' ∧ ∀ p, g.producer f = some p → s'.st p ≠ .unknown
  | _ => True
def AB (g : Graph) (id : Nat) : WR St → Prop
  | .ok _ s' => AI g s' ∧ s'.st id ≠ .unknown
  | _ => True
def AL {α : Type} (g : Graph) (fs : List Nat) : WR α → Prop
  | .ok _ s' => AI g s' ∧ ∀ f ∈ fs, ∀ p, g.producer f = some p → s'.st p ≠ .unknown
  | _ => True

theorem acyc_all (g : Graph) : ∀ fuel : Nat,
    (∀ s stack f, AI g s → AF g f (wantFile g fuel s stack f)) ∧
    (∀ s stack id, AI g s → AB g id (wantBuild g fuel s stack id)) ∧
    (∀ s stack fs rd, AI g s → AL g fs (wantIns g fuel s stack fs rd)) ∧
    (∀ s fs, AI g s → AL g fs (wantVals g fuel s fs)) := by
  intro fuel
  induction fuel with
  | zero => refine ⟨?_, ?_, ?_, ?_⟩ <;> intros <;> simp [wantFile, wantBuild, wantIns, wantVals, AF, AB, AL]
  | succ fuel ih =>
    obtain ⟨ihF, ihB, ihI, ihV⟩ := ih
    refine ⟨?_, ?_, ?_, ?_⟩
    · intro s stack f hc
      unfold wantFile
      split
      · trivial
      · split
        · rename_i hp
          exact ⟨hc, fun p hp' => by rw [hp] at hp'; cases hp'⟩
        · rename_i bid hp
          have hb := ihB s (stack ++ [f]) bid hc
          split <;> rename_i hw <;> rw [hw] at hb
          · exact ⟨hb.1, fun p hp' => by rw [hp] at hp'; cases hp'; exact hb.2⟩
          · trivial
          · trivial
    · intro s stack id hc
      unfold wantBuild
      split
      · rename_i hne
        exact ⟨hc, hne⟩
      · have hi := ihI s stack (g.build id).ordering true hc
        split
        · rename_i rd s1 hins
          rw [hins] at hi
          simp only []
          split
          · rename_i s2 hset
            obtain ⟨_, _, -, -, hst2, -⟩ := set_spec hset
            have hsne : (if rd = true then St.ready else St.want) ≠ .unknown := by cases rd <;> simp
            have hid2 : s2.st id ≠ .unknown := by rw [hst2]; unfold upd; simp [hsne]
            have h2 : AI g s2 := ai_mark hi.1 hst2 hsne hi.2
            have hv := ihV s2 (g.build id).validation h2
            have hmv := (want_mono_all g s2 fuel).2.2.2 s2 (g.build id).validation (Mono.refl s2)
            split <;> rename_i hw <;> rw [hw] at hv hmv
            · exact ⟨hv.1, hmv id hid2⟩
            · trivial
            · trivial
          · trivial
          · trivial
        · trivial
        · trivial
    · intro s stack fs rd hc
      cases fs with
      | nil => simp only [wantIns]; exact ⟨hc, fun f hf => by cases hf⟩
      | cons f fs =>
        simp only [wantIns]
        have hf := ihF s stack f hc
        split <;> rename_i hw <;> rw [hw] at hf
        · rename_i r s'
          have hrest := ihI s' stack fs (rd && r) hf.1
          have hm := (want_mono_all g s' fuel).2.2.1 s' stack fs (rd && r) (Mono.refl s')
          cases hw2 : wantIns g fuel s' stack fs (rd && r) with
          | ok r2 s2 =>
            rw [hw2] at hrest hm
            refine ⟨hrest.1, ?_⟩
            intro x hx p hp
            rcases List.mem_cons.mp hx with rfl | hx
            · exact hm p (hf.2 p hp)
            · exact hrest.2 x hx p hp
          | err m s2 => trivial
          | bad m => trivial
        · trivial
        · trivial
    · intro s fs hc
      cases fs with
      | nil => simp only [wantVals]; exact ⟨hc, fun f hf => by cases hf⟩
      | cons f fs =>
        simp only [wantVals]
        have hf := ihF s [] f hc
        split <;> rename_i hw <;> rw [hw] at hf
        · rename_i r s'
          have hrest := ihV s' fs hf.1
          have hm := (want_mono_all g s' fuel).2.2.2 s' fs (Mono.refl s')
          cases hw2 : wantVals g fuel s' fs with
          | ok r2 s2 =>
            rw [hw2] at hrest hm
            refine ⟨hrest.1, ?_⟩
            intro x hx p hp
            rcases List.mem_cons.mp hx with rfl | hx
            · exact hm p (hf.2 p hp)
            · exact hrest.2 x hx p hp
          | err m s2 => trivial
          | bad m => trivial
        · trivial
        · trivial

/-- **`Work::want_file` succeeds only on acyclic ground**: from a state satisfying the invariant
    (nothing marked, or the result of earlier successful `want_file`s), success leaves the
    invariant in place - no marked build is its own ordering ancestor. -/
theorem want_acyclic (g : Graph) (s s' : S) (f : Nat) (hc : AI g s) (h : want g s f = .ok () s') : AI g s' := by
  have := (acyc_all g (wantFuel g)).1 s [] f hc
  unfold want at h
  split at h
  · rename_i r s1 hw
    cases h
    rw [hw] at this
    exact this.1
  · cases h
  · cases h

theorem ai_of_unmarked (g : Graph) (s : S) (h : ∀ b, s.st b = .unknown) : AI g s :=
  ⟨fun b hb => absurd (h b) hb, fun b hb => absurd (h b) hb⟩

end N2V.Sched
