/-
  Basic facts about `Sched.set` and the pool helpers.
-/
import N2V.Model.Sched
namespace N2V.Sched

@[simp] theorem upd_same {α} (f : Nat → α) (i : Nat) (v : α) : upd f i v i = v := by simp [upd]
theorem upd_other {α} (f : Nat → α) (i j : Nat) (v : α) (h : j ≠ i) : upd f i v j = f j := by
  simp [upd, h]

/-- Number of builds `b < n` satisfying `p`. -/
def cnt (n : Nat) (p : Nat → Bool) : Nat := ((List.range n).filter p).length

theorem cnt_succ (n : Nat) (p : Nat → Bool) : cnt (n + 1) p = cnt n p + (if p n then 1 else 0) := by
  unfold cnt
  rw [List.range_succ, List.filter_append]
  simp [List.filter_cons]
  split <;> simp

theorem cnt_congr (n : Nat) (p q : Nat → Bool) (h : ∀ b, b < n → p b = q b) : cnt n p = cnt n q := by
  induction n with
  | zero => simp [cnt]
  | succ n ih =>
    rw [cnt_succ, cnt_succ, ih (fun b hb => h b (by omega)), h n (by omega)]

/-- Changing the predicate at a single build changes the count by what changed there. -/
theorem cnt_update (n : Nat) (p q : Nat → Bool) (id : Nat) (hid : id < n)
    (h : ∀ b, b ≠ id → p b = q b) :
    (cnt n q : Int) = cnt n p - (if p id then 1 else 0) + (if q id then 1 else 0) := by
  induction n with
  | zero => omega
  | succ n ih =>
    rw [cnt_succ, cnt_succ]
    by_cases hn : id = n
    · subst hn
      have : cnt id p = cnt id q := cnt_congr _ _ _ (fun b hb => h b (by omega))
      rw [this]
      split <;> split <;> simp <;> omega
    · have := ih (by omega)
      rw [h n (fun e => hn e.symm)]
      split <;> simp at * <;> omega

theorem cnt_le (n : Nat) (p : Nat → Bool) : cnt n p ≤ n := by
  unfold cnt
  have := List.length_filter_le p (List.range n)
  simpa using this

/-! ### modPool -/

theorem modPool_names (ps : List Pool) (name : Bytes) (f : Pool → Pool) (ps' : List Pool)
    (hf : ∀ p, (f p).name = p.name) (h : modPool ps name f = some ps') :
    ps'.map (·.name) = ps.map (·.name) := by
  induction ps generalizing ps' with
  | nil => simp [modPool] at h
  | cons p rest ih =>
    unfold modPool at h
    split at h
    · cases h; simp [hf]
    · cases hm : modPool rest name f with
      | none => simp [hm] at h
      | some r => simp [hm] at h; subst h; simp [ih r hm]

theorem modPool_isSome (ps : List Pool) (name : Bytes) (f : Pool → Pool) :
    (modPool ps name f).isSome = (ps.map (·.name)).contains name := by
  induction ps with
  | nil => simp [modPool]
  | cons p rest ih =>
    unfold modPool
    split
    · rename_i h; simp [h]
    · rename_i h
      cases hm : modPool rest name f <;> simp [hm] at ih ⊢
      · constructor
        · exact fun e => h e.symm
        · simpa using ih
      · right; simpa using ih

/-- With distinct pool names, `modPool` changes exactly the pool called `name`. -/
theorem modPool_mem (ps : List Pool) (name : Bytes) (f : Pool → Pool) (ps' : List Pool)
    (h : modPool ps name f = some ps') (q : Pool) :
    q ∈ ps' → (∃ p ∈ ps, p.name = name ∧ q = f p) ∨ (q ∈ ps ∧ q.name ≠ name) ∨ (q ∈ ps) := by
  induction ps generalizing ps' with
  | nil => simp [modPool] at h
  | cons p rest ih =>
    unfold modPool at h
    split at h
    · rename_i hn
      cases h
      intro hq
      simp at hq
      rcases hq with rfl | hq
      · exact Or.inl ⟨p, by simp, hn, rfl⟩
      · exact Or.inr (Or.inr (by simp [hq]))
    · cases hm : modPool rest name f with
      | none => simp [hm] at h
      | some r =>
        simp [hm] at h; subst h
        intro hq
        simp at hq
        rcases hq with rfl | hq
        · exact Or.inr (Or.inr (by simp))
        · rcases ih r hm hq with ⟨p', hp', hn', rfl⟩ | ⟨hq', hne⟩ | hq'
          · exact Or.inl ⟨p', by simp [hp'], hn', rfl⟩
          · exact Or.inr (Or.inl ⟨by simp [hq'], hne⟩)
          · exact Or.inr (Or.inr (by simp [hq']))

end N2V.Sched

namespace N2V.Sched

/-- With distinct names, `modPool` is a map that touches only the pool called `name`. -/
theorem modPool_eq_map (ps : List Pool) (name : Bytes) (f : Pool → Pool) (ps' : List Pool)
    (hnd : (ps.map (·.name)).Nodup) (h : modPool ps name f = some ps') :
    ps' = ps.map (fun p => if p.name = name then f p else p) := by
  induction ps generalizing ps' with
  | nil => simp [modPool] at h
  | cons p rest ih =>
    simp at hnd
    unfold modPool at h
    split at h
    · rename_i hn
      cases h
      simp [hn]
      -- no other pool has this name
      have : ∀ q ∈ rest, q.name ≠ name := fun q hq e => hnd.1 q hq (by rw [e, hn])
      rw [List.map_congr_left (g := id)]
      · simp
      · intro q hq; simp [this q hq]
    · rename_i hn
      cases hm : modPool rest name f with
      | none => simp [hm] at h
      | some r =>
        simp [hm] at h; subst h
        simp [hn, ih r hnd.2 hm]

theorem modPool_some_iff (ps : List Pool) (name : Bytes) (f : Pool → Pool) :
    (∃ ps', modPool ps name f = some ps') ↔ name ∈ ps.map (·.name) := by
  have := modPool_isSome ps name f
  constructor
  · rintro ⟨ps', h⟩; rw [h] at this; simpa using this.symm
  · intro hm
    cases hq : modPool ps name f with
    | none => rw [hq] at this; simp at this; exact absurd hm (by simpa using this)
    | some r => exact ⟨r, rfl⟩

/-- Everything `set` does, in one statement. -/
theorem set_spec {g : Graph} {s s' : S} {id : Nat} {new : St} (h : set g s id new = .ok s') :
    ∃ ps1 ps2,
      (if s.st id = .running then modPool s.pools (g.build id).pool decRunning else some s.pools) = some ps1 ∧
      (if new = .running then modPool ps1 (g.build id).pool incRunning else some ps1) = some ps2 ∧
      s'.st = upd s.st id new ∧
      s'.counts = (if (g.build id).phony then s.counts else (s.counts.add (s.st id) (-1)).add new 1) ∧
      s'.pending = s.pending + (if s.st id = .unknown then 1 else 0) - (if new = .done ∨ new = .failed then 1 else 0) ∧
      s'.ready = (if new = .ready then s.ready ++ [id] else s.ready) ∧
      s'.pools = ps2 ∧ s'.running = s.running ∧ s'.tasksFailed = s.tasksFailed ∧
      s'.tasksRun = s.tasksRun ∧ s'.failuresLeft = s.failuresLeft := by
  unfold set at h
  simp only at h
  split at h
  · cases h
  · rename_i ps1 h1
    split at h
    · cases h
    · rename_i ps2 h2
      cases h
      exact ⟨ps1, ps2, h1, h2, rfl, rfl, rfl, rfl, rfl, rfl, rfl, rfl, rfl⟩

end N2V.Sched
