/-
  Facts about the initial state and the run loop.
-/
import N2V.Lemmas.SchedInv
namespace N2V.Sched

theorem insertPool_names (ps : List Pool) (n : Bytes) (d : Nat)
    (h : (ps.map (·.name)).Nodup) : ((insertPool ps n d).map (·.name)).Nodup := by
  induction ps with
  | nil => simp [insertPool]
  | cons p rest ih =>
    simp at h
    unfold insertPool
    split
    · rename_i hn; simp; rw [← hn]; exact ⟨h.1, h.2⟩
    · rename_i hn
      simp
      refine ⟨?_, ih h.2⟩
      intro q hq
      -- q is either an old pool or the new one (named n)
      have : q.name ∈ (insertPool rest n d).map (·.name) := List.mem_map_of_mem hq
      have key : ∀ (l : List Pool) x, x ∈ (insertPool l n d).map (·.name) → x ∈ l.map (·.name) ∨ x = n := by
        intro l
        induction l with
        | nil => intro x hx; simp [insertPool] at hx; exact Or.inr hx
        | cons a l ihl =>
          intro x hx
          unfold insertPool at hx
          split at hx
          · rename_i ha; simp at hx ⊢
            rcases hx with rfl | hx
            · exact Or.inl (Or.inl ha.symm)
            · obtain ⟨y, hy, rfl⟩ := hx; exact Or.inl (Or.inr ⟨y, hy, rfl⟩)
          · simp at hx ⊢
            rcases hx with rfl | hx
            · exact Or.inl (Or.inl rfl)
            · rcases ihl x (by simpa using hx) with h1 | h1
              · simp at h1; obtain ⟨y, hy, rfl⟩ := h1; exact Or.inl (Or.inr ⟨y, hy, rfl⟩)
              · exact Or.inr h1
      rcases key rest q.name this with h1 | h1
      · simp at h1; obtain ⟨y, hy, e⟩ := h1; rw [← e]; exact h.1 y hy
      · rw [h1]; exact fun e => hn e.symm

theorem insertPool_fresh (ps : List Pool) (n : Bytes) (d : Nat) :
    ∀ p ∈ insertPool ps n d, p ∈ ps ∨ (p.queued = [] ∧ p.running = 0) := by
  induction ps with
  | nil => intro p hp; simp [insertPool] at hp; subst hp; exact Or.inr ⟨rfl, rfl⟩
  | cons a rest ih =>
    intro p hp
    unfold insertPool at hp
    split at hp
    · simp at hp; rcases hp with rfl | hp
      · exact Or.inr ⟨rfl, rfl⟩
      · exact Or.inl (by simp [hp])
    · simp at hp; rcases hp with rfl | hp
      · exact Or.inl (by simp)
      · rcases ih p hp with h | h
        · exact Or.inl (by simp [h])
        · exact Or.inr h

theorem initPools_spec (declared : List (Bytes × Nat)) :
    ((initPools declared).map (·.name)).Nodup ∧ ∀ p ∈ initPools declared, p.queued = [] ∧ p.running = 0 := by
  unfold initPools
  have key : ∀ (l : List (Bytes × Nat)) (ps : List Pool),
      (ps.map (·.name)).Nodup → (∀ p ∈ ps, p.queued = [] ∧ p.running = 0) →
      ((l.foldl (fun ps d => insertPool ps d.1 d.2) ps).map (·.name)).Nodup ∧
      ∀ p ∈ l.foldl (fun ps d => insertPool ps d.1 d.2) ps, p.queued = [] ∧ p.running = 0 := by
    intro l
    induction l with
    | nil => intro ps h1 h2; exact ⟨h1, h2⟩
    | cons d l ih =>
      intro ps h1 h2
      simp only [List.foldl_cons]
      apply ih
      · exact insertPool_names ps d.1 d.2 h1
      · intro p hp
        rcases insertPool_fresh ps d.1 d.2 p hp with h | h
        · exact h2 p h
        · exact h
  apply key
  · decide
  · intro p hp; simp at hp; rcases hp with rfl | rfl <;> exact ⟨rfl, rfl⟩

theorem cnt_eq_zero (n : Nat) (p : Nat → Bool) (h : ∀ b, p b = false) : cnt n p = 0 := by
  induction n with
  | zero => rfl
  | succ n ih => rw [cnt_succ, ih]; simp [h]

/-- The state `BuildStates::new` + `Runner::new` build satisfies the invariant. -/
theorem init_inv (g : Graph) (par : Nat) (declared : List (Bytes × Nat)) (k : Option Nat) :
    Inv g par (init declared k) := by
  have hp := initPools_spec declared
  refine { valid := ?_, readySt := ?_, readyNodup := ?_, poolNames := hp.1, queuedSt := ?_,
           queuedNodup := ?_, poolRunning := ?_, counts := ?_, pending := ?_, ordered := ?_,
           running := ?_, parBound := ?_, depthBound := ?_ }
  · intro b hb; simp [init] at hb
  · intro id hid; simp [init] at hid
  · simp [init]
  · intro p hp' id hid; simp [init] at hp'; rw [(hp.2 p hp').1] at hid; simp at hid
  · intro p hp'; simp [init] at hp'; rw [(hp.2 p hp').1]; simp
  · intro p hp'; simp [init] at hp' ⊢; rw [(hp.2 p hp').2, cnt_eq_zero]; · rfl
    intro b; rfl
  · intro x hx
    simp only [init]
    rw [cnt_eq_zero]
    · cases x <;> simp_all [Counts.get]
    · intro b; cases x <;> simp_all
  · simp only [init]; rw [cnt_eq_zero]; · rfl
    intro b; rfl
  · intro b hb; simp [init, gated] at hb
  · simp only [init]; rw [cnt_eq_zero]; · rfl
    intro b; rfl
  · simp [init]
  · intro p hp' _; simp [init] at hp'; rw [(hp.2 p hp').2]; omega

/-- `recheck_ready` answers true only if every producer of an ordering input is `Done`. -/
theorem recheckReady_sound (g : Graph) (s : S) (id : Nat) (h : recheckReady g s id = true) :
    ∀ f ∈ (g.build id).ordering, ∀ p, g.producer f = some p → s.st p = .done := by
  intro f hf p hp
  unfold recheckReady at h
  rw [List.all_eq_true] at h
  have := h f hf
  simp [hp] at this
  exact this

theorem recheckReady_complete (g : Graph) (s : S) (id : Nat)
    (h : ∀ f ∈ (g.build id).ordering, ∀ p, g.producer f = some p → s.st p = .done) :
    recheckReady g s id = true := by
  unfold recheckReady
  rw [List.all_eq_true]
  intro f hf
  cases hp : g.producer f with
  | none => rfl
  | some p => simp [h f hf p hp]

theorem resToRun_not_ok (s0 : S) (r : Res S) (se : S) (b : Bool) : resToRun s0 r ≠ .inr (se, .ok b) := by
  unfold resToRun; split <;> simp

theorem enqueueRun_not_ok (g : Graph) (s : S) (id : Nat) (se : S) (b : Bool) :
    enqueueRun g s id ≠ .inr (se, .ok b) := by
  unfold enqueueRun
  split
  · split <;> simp
  · exact resToRun_not_ok _ _ _ _

theorem startLoop_not_ok (g : Graph) (par fuel : Nat) (s : S) (p : Bool) (se : S) (b : Bool) :
    startLoop g par fuel s p ≠ .inr (se, .ok b) := by
  induction fuel generalizing s p with
  | zero => simp [startLoop]
  | succ fuel ih =>
    unfold startLoop
    split
    · split
      · simp
      · split
        · exact ih _ _
        · rename_i r hr; intro e; cases e; exact resToRun_not_ok _ _ _ _ hr
    · simp

theorem readyLoop_not_ok {E : Type} (g : Graph) (c : Choices E) (fuel : Nat) (s : S) (e : E) (perms : List (List Nat)) (p : Bool)
    (se : S) (e' : E) (b : Bool) : readyLoop g c fuel s e perms p ≠ .inr (se, e', .ok b) := by
  induction fuel generalizing s e perms p with
  | zero => simp [readyLoop]
  | succ fuel ih =>
    unfold readyLoop
    split
    · simp
    · simp only []
      split
      · simp
      · split
        · split
          · exact ih _ _ _ _
          · rename_i r hr; intro h; cases h; exact resToRun_not_ok _ _ _ _ hr
        · split
          · split
            · exact ih _ _ _ _
            · rename_i r hr; intro h; cases h; exact resToRun_not_ok _ _ _ _ hr
          · split
            · exact ih _ _ _ _
            · rename_i r hr; intro h; cases h; exact enqueueRun_not_ok _ _ _ _ _ hr

/-- `Work::run` reports success only with no failed task on record and nothing pending. -/
theorem runLoop_ok_true {E : Type} (g : Graph) (par : Nat) (c : Choices E) (fuel : Nat) (s : S) (e : E)
    (perms : List (List Nat)) (fin : List (Nat × Term))
    (h : (runLoop g par c fuel s e perms fin).result = .ok true) :
    (runLoop g par c fuel s e perms fin).s.tasksFailed = 0 ∧ (runLoop g par c fuel s e perms fin).s.pending ≤ 0 := by
  fun_induction runLoop g par c fuel s e perms fin
  all_goals first
    | (simp at h; done)
    | (rename_i ih; exact ih h)
    | (simp at h ⊢; exact ⟨h, by assumption⟩)
    | (exfalso; simp only at h; subst h; apply startLoop_not_ok; assumption)
    | (exfalso; simp only at h; subst h; apply readyLoop_not_ok; assumption)
    | (exfalso; simp only at h; subst h; apply resToRun_not_ok; assumption)

end N2V.Sched
