/-
  The start/finish skeleton of a trace, the `-k` budget predicate, and the frame relation
  (what a step leaves untouched: the task counters, the budget, the start/finish skeleton).
-/
import N2V.Lemmas.SchedTrace
namespace N2V.Sched

/-- The start / finish / load events of a trace (newest first). -/
def sf : List Ev → List Ev
  | [] => []
  | .start b :: tr => .start b :: sf tr
  | .finish b t :: tr => .finish b t :: sf tr
  | .load :: tr => .load :: sf tr
  | _ :: tr => sf tr

/-- Commands that failed / succeeded / whether one was interrupted, since the last (re)load. -/
def fails : List Ev → Nat
  | [] => 0
  | .load :: _ => 0
  | .finish _ .failure :: tr => fails tr + 1
  | _ :: tr => fails tr

def succs : List Ev → Nat
  | [] => 0
  | .load :: _ => 0
  | .finish _ .success :: tr => succs tr + 1
  | _ :: tr => succs tr

def intr : List Ev → Bool
  | [] => false
  | .load :: _ => false
  | .finish _ .interrupted :: _ => true
  | _ :: tr => intr tr

/-- May a command be started after the history `tr`?  Fewer failures than the `-k` budget and no
    interruption. -/
def budgetOk (k : Option Nat) (tr : List Ev) : Bool :=
  (match k with | some k0 => decide (fails tr < k0) | none => true) && !intr tr

/-- Every `start` in the trace respected the budget when it happened. -/
def bT (k : Option Nat) : List Ev → Bool
  | [] => true
  | .start _ :: tr => budgetOk k tr && bT k tr
  | _ :: tr => bT k tr

/-- The decidable trace predicate the `budgetSpec` monitor evaluates. -/
def budgetTrace (k : Option Nat) (tr : List Ev) : Bool := bT k (sf tr)

structure Frame (s s' : S) : Prop where
  tasksRun : s'.tasksRun = s.tasksRun
  tasksFailed : s'.tasksFailed = s.tasksFailed
  failuresLeft : s'.failuresLeft = s.failuresLeft
  sf : sf s'.trace = sf s.trace

theorem Frame.refl (s : S) : Frame s s := ⟨rfl, rfl, rfl, rfl⟩
theorem Frame.trans {a b c : S} (h1 : Frame a b) (h2 : Frame b c) : Frame a c :=
  ⟨h2.tasksRun.trans h1.tasksRun, h2.tasksFailed.trans h1.tasksFailed,
   h2.failuresLeft.trans h1.failuresLeft, h2.sf.trans h1.sf⟩

theorem set_frm {g : Graph} {s s' : S} {id : Nat} {new : St} (h : set g s id new = .ok s') : Frame s s' := by
  obtain ⟨_, _, -, -, -, -, -, -, -, -, h1, h2, h3⟩ := set_spec h
  exact ⟨h2, h1, h3, by rw [set_trace h]; rfl⟩

end N2V.Sched
