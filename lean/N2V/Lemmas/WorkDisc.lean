/-
  Discovered dependencies across invocations (C09): what a start-up attaches to a step from ANY
  log (records with dependency lists included), and what a "clean" answer of `check_build_dirty`
  says about the remembered dependencies.
-/
import N2V.Lemmas.WorkSettled
namespace N2V.Work
open N2V N2V.Load

/-! ### Interning only appends source files -/

/-- `g'` is `g` with more files, none of them produced by a step. -/
structure Ext (g g' : GraphM) : Prop where
  builds : g'.builds = g.builds
  files : ∃ extra, g'.files = g.files ++ extra ∧ ∀ f ∈ extra, f.input = none

theorem Ext.refl (g : GraphM) : Ext g g := ⟨rfl, [], by simp, by simp⟩

theorem Ext.trans {a b c : GraphM} (h1 : Ext a b) (h2 : Ext b c) : Ext a c := by
  obtain ⟨x1, hx1, hn1⟩ := h1.files
  obtain ⟨x2, hx2, hn2⟩ := h2.files
  refine ⟨h2.builds.trans h1.builds, x1 ++ x2, by rw [hx2, hx1, List.append_assoc], ?_⟩
  intro f hf
  rcases List.mem_append.mp hf with h | h
  · exact hn1 f h
  · exact hn2 f h

theorem Ext.length_le {g g' : GraphM} (h : Ext g g') : g.files.length ≤ g'.files.length := by
  obtain ⟨x, hx, _⟩ := h.files
  rw [hx, List.length_append]; omega

theorem Ext.file_old {g g' : GraphM} (h : Ext g g') (f : Nat) (hf : f < g.files.length) :
    g'.files[f]? = g.files[f]? := by
  obtain ⟨x, hx, _⟩ := h.files
  rw [hx, List.getElem?_append_left hf]

theorem Ext.fileName_old {g g' : GraphM} (h : Ext g g') (f : Nat) (hf : f < g.files.length) :
    fileName g' f = fileName g f := by
  unfold fileName; rw [h.file_old f hf]

theorem Ext.producer {g g' : GraphM} (h : Ext g g') (n : Bytes) : producerByName g' n = producerByName g n := by
  obtain ⟨x, hx, hn⟩ := h.files
  unfold producerByName
  rw [hx, List.find?_append]
  cases hf : g.files.find? (fun f => f.name == n) with
  | some f => simp
  | none =>
    simp only [Option.none_or, Option.bind_none]
    cases hx2 : x.find? (fun f => f.name == n) with
    | none => rfl
    | some f =>
      simp only [Option.bind_some]
      exact hn f (List.mem_of_find?_eq_some hx2)

theorem idFromCanonical_spec (g : GraphM) (n : Bytes) :
    Ext g (idFromCanonical g n).1 ∧ fileName (idFromCanonical g n).1 (idFromCanonical g n).2 = n ∧
    (idFromCanonical g n).2 < (idFromCanonical g n).1.files.length := by
  unfold idFromCanonical
  cases h : g.files.findIdx? (fun f => f.name == n) with
  | some i =>
    simp only []
    have := List.findIdx?_eq_some_iff_getElem.mp h
    obtain ⟨hi, hp, _⟩ := this
    refine ⟨Ext.refl g, ?_, hi⟩
    unfold fileName
    rw [List.getElem?_eq_getElem hi]
    simpa using hp
  | none =>
    simp only []
    refine ⟨⟨rfl, [⟨n, none, []⟩], rfl, by simp⟩, ?_, by simp⟩
    unfold fileName
    simp

/-- Interning a list of names, as `applyLog` does for a record's dependency list. -/
def internAll (e : Env) (ns : List Bytes) : Env × List Nat :=
  ns.foldl (fun (acc : Env × List Nat) n =>
    let (e', i) := intern acc.1 n
    (e', acc.2 ++ [i])) (e, [])

/-- `a` and `b` differ in the graph only. -/
structure SameButGraph (a b : Env) : Prop where
  disc : b.disc = a.disc
  hashes : b.hashes = a.hashes
  cache : b.cache = a.cache
  fs : b.fs = a.fs
  clock : b.clock = a.clock
  log : b.log = a.log

theorem internFold_spec (ns : List Bytes) : ∀ (e : Env) (ids : List Nat) (pre : List Bytes),
    ids.map (fileName e.g) = pre → (∀ i ∈ ids, i < e.g.files.length) →
    let r := ns.foldl (fun (acc : Env × List Nat) n =>
      let (e', i) := intern acc.1 n
      (e', acc.2 ++ [i])) (e, ids)
    Ext e.g r.1.g ∧ SameButGraph e r.1 ∧ r.2.map (fileName r.1.g) = pre ++ ns ∧
      (∀ i ∈ r.2, i < r.1.g.files.length) := by
  induction ns with
  | nil =>
    intro e ids pre h1 h2
    simp only [List.foldl_nil, List.append_nil]
    exact ⟨Ext.refl _, ⟨rfl, rfl, rfl, rfl, rfl, rfl⟩, h1, h2⟩
  | cons n ns ih =>
    intro e ids pre h1 h2
    simp only [List.foldl_cons]
    obtain ⟨hx, hname, hlt⟩ := idFromCanonical_spec e.g n
    have hids : (ids ++ [(intern e n).2]).map (fileName (intern e n).1.g) = pre ++ [n] := by
      simp only [List.map_append, List.map_cons, List.map_nil]
      congr 1
      · rw [← h1]
        apply List.map_congr_left
        intro i hi
        exact hx.fileName_old i (h2 i hi)
      · simp only [intern]; rw [hname]
    have hlts : ∀ i ∈ ids ++ [(intern e n).2], i < (intern e n).1.g.files.length := by
      intro i hi
      rcases List.mem_append.mp hi with h | h
      · exact Nat.lt_of_lt_of_le (h2 i h) hx.length_le
      · simp only [List.mem_singleton] at h; subst h; exact hlt
    obtain ⟨a, b, c, d⟩ := ih (intern e n).1 (ids ++ [(intern e n).2]) (pre ++ [n]) hids hlts
    refine ⟨hx.trans a, ?_, ?_, d⟩
    · exact ⟨b.disc, b.hashes, b.cache, b.fs, b.clock, b.log⟩
    · rw [c, List.append_assoc]; rfl

theorem internAll_spec (e : Env) (ns : List Bytes) :
    Ext e.g (internAll e ns).1.g ∧ SameButGraph e (internAll e ns).1 ∧
    (internAll e ns).2.map (fileName (internAll e ns).1.g) = ns ∧
    (∀ i ∈ (internAll e ns).2, i < (internAll e ns).1.g.files.length) := by
  have := internFold_spec ns e [] [] rfl (by simp)
  simpa [internAll] using this

/-! ### What a start-up attaches, for any log -/

/-- The latest record of `rs` attributed to step `b` (`acc` = the latest one before `rs`). -/
def lastRec (g : GraphM) (b : Nat) : List Rec → Option Rec → Option Rec
  | [], acc => acc
  | r :: rs, acc =>
    if Db.attributeRec (producerByName g) r.outs = some b then lastRec g b rs (some r) else lastRec g b rs acc

theorem lastRec_acc (g : GraphM) (b : Nat) (rs : List Rec) (acc : Option Rec) :
    lastRec g b rs acc = (lastRec g b rs none).or acc := by
  induction rs generalizing acc with
  | nil => simp [lastRec]
  | cons r rs ih =>
    unfold lastRec
    split
    · rw [ih (some r)]
      cases lastRec g b rs none <;> simp
    · exact ih acc

theorem lastRec_congr (g g' : GraphM) (h : ∀ n, producerByName g' n = producerByName g n) (b : Nat)
    (rs : List Rec) (acc : Option Rec) : lastRec g' b rs acc = lastRec g b rs acc := by
  have : producerByName g' = producerByName g := funext h
  induction rs generalizing acc with
  | nil => rfl
  | cons r rs ih => unfold lastRec; rw [this]; split <;> exact ih _

theorem applyLog_cons (e : Env) (r : Rec) (rs : List Rec) :
    applyLog e (r :: rs) =
      match Db.attributeRec (producerByName e.g) r.outs with
      | some b =>
        applyLog { (internAll e r.deps).1 with
          disc := assocPut (internAll e r.deps).1.disc b (internAll e r.deps).2,
          hashes := assocPut (internAll e r.deps).1.hashes b r.hash } rs
      | none => applyLog e rs := by
  conv => lhs; unfold applyLog
  rfl

/-- What `e` remembers for step `b`: the names of its discovered dependencies (all valid ids) and
    its signature. -/
def Remembers (e : Env) (b : Nat) (r : Rec) : Prop :=
  (discOf e b).map (fileName e.g) = r.deps ∧ (∀ i ∈ discOf e b, i < e.g.files.length) ∧
  assocGet e.hashes b = some r.hash

theorem Remembers.ext {e e' : Env} {b : Nat} {r : Rec} (h : Remembers e b r) (hx : Ext e.g e'.g)
    (hd : discOf e' b = discOf e b) (hh : assocGet e'.hashes b = assocGet e.hashes b) : Remembers e' b r := by
  obtain ⟨h1, h2, h3⟩ := h
  refine ⟨?_, ?_, hh.trans h3⟩
  · rw [hd, ← h1]
    apply List.map_congr_left
    intro i hi
    exact hx.fileName_old i (h2 i hi)
  · rw [hd]; intro i hi; exact Nat.lt_of_lt_of_le (h2 i hi) hx.length_le

/-- **Start-up, for any log**: the graph only gains source files; tree, clock, log and cache are
    untouched; and for every step the discovered-dependency list and the signature are those of
    the LATEST record attributed to it (older records are replaced wholesale), or untouched when
    no record is attributed to it. -/
theorem applyLog_spec (rs : List Rec) : ∀ (e : Env),
    Ext e.g (applyLog e rs).g ∧
    (applyLog e rs).fs = e.fs ∧ (applyLog e rs).clock = e.clock ∧ (applyLog e rs).log = e.log ∧
    (applyLog e rs).cache = e.cache ∧
    ∀ b, (∀ r, lastRec e.g b rs none = some r → Remembers (applyLog e rs) b r) ∧
         (lastRec e.g b rs none = none → discOf (applyLog e rs) b = discOf e b ∧
            assocGet (applyLog e rs).hashes b = assocGet e.hashes b) := by
  induction rs with
  | nil =>
    intro e
    refine ⟨Ext.refl _, rfl, rfl, rfl, rfl, ?_⟩
    intro b
    exact ⟨fun r h => by simp [lastRec] at h, fun _ => ⟨rfl, rfl⟩⟩
  | cons r0 rs ih =>
    intro e
    rw [applyLog_cons]
    cases hatt : Db.attributeRec (producerByName e.g) r0.outs with
    | none =>
      simp only []
      obtain ⟨a1, a2, a3, a4, a5, a6⟩ := ih e
      refine ⟨a1, a2, a3, a4, a5, ?_⟩
      intro b
      have hl : lastRec e.g b (r0 :: rs) none = lastRec e.g b rs none := by
        conv => lhs; unfold lastRec
        simp [hatt]
      rw [hl]
      exact a6 b
    | some b0 =>
      simp only []
      obtain ⟨x1, x2, x3, x4⟩ := internAll_spec e r0.deps
      generalize he1 : ({ (internAll e r0.deps).1 with
          disc := assocPut (internAll e r0.deps).1.disc b0 (internAll e r0.deps).2,
          hashes := assocPut (internAll e r0.deps).1.hashes b0 r0.hash } : Env) = e1
      have hg1 : e1.g = (internAll e r0.deps).1.g := by subst he1; rfl
      have hx1 : Ext e.g e1.g := by rw [hg1]; exact x1
      obtain ⟨a1, a2, a3, a4, a5, a6⟩ := ih e1
      refine ⟨hx1.trans a1, ?_, ?_, ?_, ?_, ?_⟩
      · rw [a2]; subst he1; exact x2.fs
      · rw [a3]; subst he1; exact x2.clock
      · rw [a4]; subst he1; exact x2.log
      · rw [a5]; subst he1; exact x2.cache
      · intro b
        have hlc : ∀ acc, lastRec e1.g b rs acc = lastRec e.g b rs acc :=
          fun acc => lastRec_congr e.g e1.g hx1.producer b rs acc
        have hl : lastRec e.g b (r0 :: rs) none =
            if b0 = b then (lastRec e.g b rs none).or (some r0) else lastRec e.g b rs none := by
          conv => lhs; unfold lastRec
          simp only [hatt, Option.some.injEq]
          split
          · exact lastRec_acc _ _ _ _
          · rfl
        have hrem0 : b0 = b → Remembers e1 b r0 := by
          intro hb; subst hb he1
          refine ⟨?_, ?_, ?_⟩
          · simp only [discOf, assocGet_put_self, Option.getD_some]; exact x3
          · simp only [discOf, assocGet_put_self, Option.getD_some]; exact x4
          · simp only [assocGet_put_self]
        have hother : b0 ≠ b → discOf e1 b = discOf e b ∧ assocGet e1.hashes b = assocGet e.hashes b := by
          intro hb; subst he1
          have hb' : b ≠ b0 := fun h => hb h.symm
          refine ⟨?_, ?_⟩
          · simp only [discOf]; rw [assocGet_put_other _ _ _ _ hb', x2.disc]
          · simp only []; rw [assocGet_put_other _ _ _ _ hb', x2.hashes]
        obtain ⟨b1, b2⟩ := a6 b
        rw [hlc] at b1 b2
        rw [hl]
        constructor
        · intro r hr
          cases hrs : lastRec e.g b rs none with
          | some r' =>
            rw [hrs] at hr
            have : r' = r := by split at hr <;> simpa using hr
            subst this
            exact b1 r' hrs
          | none =>
            rw [hrs] at hr
            by_cases hb : b0 = b
            · simp only [hb, if_true, Option.none_or, Option.some.injEq] at hr
              subst hr
              obtain ⟨d1, d2⟩ := b2 hrs
              exact (hrem0 hb).ext a1 d1 d2
            · simp [hb] at hr
        · intro hn
          by_cases hb : b0 = b
          · simp only [hb, if_true] at hn
            cases hrs : lastRec e.g b rs none <;> rw [hrs] at hn <;> simp at hn
          · simp only [hb, if_false] at hn
            obtain ⟨d1, d2⟩ := b2 hn
            obtain ⟨o1, o2⟩ := hother hb
            exact ⟨d1.trans o1, d2.trans o2⟩

/-! ### What a clean answer says about the remembered dependencies -/

theorem Stat.coh {e e' : Env} (h : Stat e e') (hc : Coh e) : Coh e' := by
  intro f m hm
  rcases h.fresh f m hm with h' | h'
  · rw [mtimeOf_same h.toSameButCache]; exact hc f m h'
  · rw [mtimeOf_same h.toSameButCache]; exact h'

/-- When `ensure_input_files` finds nothing missing (truthful cache), every file is there. -/
theorem ensureInputs_none_present (l : List Nat) : ∀ (e e' : Env), Coh e → ensureInputs e l = .ok (none, e') →
    ∀ f ∈ l, (mtimeOf e f).isSome = true := by
  induction l with
  | nil => intro e e' _ _ f hf; cases hf
  | cons f0 fs ih =>
    intro e e' hc h
    unfold ensureInputs at h
    cases hcache : assocGet e.cache f0 with
    | some m =>
      rw [hcache] at h
      simp only [] at h
      cases hm : m with
      | none => rw [hm] at h; simp at h
      | some t =>
        rw [hm] at h
        simp only [Option.isNone_some, Bool.false_eq_true, if_false] at h
        intro f hf
        rcases List.mem_cons.mp hf with rfl | hf
        · have := hc f m hcache
          rw [← this, hm]; rfl
        · exact ih e e' hc h f hf
    | none =>
      rw [hcache] at h
      simp only [] at h
      split at h
      · cases h
      · have hs := statFile_stat e f0
        cases hm : (statFile e f0).1 with
        | none => rw [hm] at h; simp at h
        | some t =>
          rw [hm] at h
          simp only [Option.isNone_some, Bool.false_eq_true, if_false] at h
          intro f hf
          rcases List.mem_cons.mp hf with rfl | hf
          · have : (statFile e f).1 = mtimeOf e f := rfl
            rw [← this, hm]; rfl
          · have := ih (statFile e f0).2 e' (hs.1.coh hc) h f hf
            rw [mtimeOf_same hs.1.toSameButCache] at this
            exact this

/-- A clean answer (from a truthful cache) means every remembered dependency exists and the
    cache the signature was computed from holds its current modification time. -/
theorem checkDirty_clean_disc (e : Env) (hc : Coh e) (b : Nat) (bm : BuildM) (hb : buildOf e.g b = some bm)
    (hnp : bm.cmdline.isNone = false) (h : (checkDirty e b).1 = some false) :
    ∀ f ∈ discOf e b, ∃ t, mtimeOf e f = some t ∧ assocGet (checkDirty e b).2.cache f = some (some t) := by
  have hst := checkDirty_stat e b
  have hc' := hst.coh hc
  have hfm : (filesMissing e bm b).2 = some false ∧ (checkDirty e b).2 = (filesMissing e bm b).1 := by
    unfold checkDirty at h ⊢
    rw [hb] at h ⊢
    simp only [hnp, Bool.false_eq_true, if_false] at h ⊢
    cases hm : (filesMissing e bm b).2 with
    | none => rw [hm] at h; cases h
    | some m =>
      cases m with
      | true => rw [hm] at h; cases h
      | false =>
        refine ⟨rfl, ?_⟩
        simp only []
        split <;> rfl
  have key : ∀ f ∈ discOf e b, (mtimeOf e f).isSome = true ∧ Cached (filesMissing e bm b).1 f := by
    have hfm := hfm.1
    revert hfm
    unfold filesMissing
    split
    · intro hx; cases hx
    · intro hx; split at hx <;> cases hx
    · rename_i e1 h1
      obtain ⟨s1, _, _⟩ := ensureInputs_stat _ _ _ _ h1
      split
      · intro hx; cases hx
      · intro hx; cases hx
      · rename_i e2 h2
        intro _ f hf
        have hd : discOf e1 b = discOf e b := by unfold discOf; rw [s1.toSameButCache.disc]
        rw [← hd] at hf
        obtain ⟨_, _, c2⟩ := ensureInputs_stat _ _ _ _ h2
        obtain ⟨_, b3, _⟩ := statAllOutputs_stat bm.outs e2
        refine ⟨?_, b3 f (c2 rfl f hf)⟩
        have := ensureInputs_none_present _ _ _ (s1.coh hc) h2 f hf
        rw [mtimeOf_same s1.toSameButCache] at this
        exact this
  intro f hf
  obtain ⟨hp, hcd⟩ := key f hf
  rw [hfm.2]
  cases hm : mtimeOf e f with
  | none => rw [hm] at hp; cases hp
  | some t =>
    refine ⟨t, rfl, ?_⟩
    unfold Cached at hcd
    cases hx : assocGet (filesMissing e bm b).1.cache f with
    | none => rw [hx] at hcd; cases hcd
    | some m =>
      have := hc' f m (by rw [hfm.2]; exact hx)
      rw [mtimeOf_same hst.toSameButCache, hm] at this
      rw [this]

/-- From a clean answer: the recorded signature's dependency part is the remembered names with
    their CURRENT modification times, and every remembered name exists. -/
theorem clean_means_deps_unchanged (e : Env) (hc : Coh e) (b : Nat) (bm : BuildM) (hb : buildOf e.g b = some bm)
    (hnp : bm.cmdline.isNone = false) (r : Rec) (hrem : Remembers e b r)
    (h : (checkDirty e b).1 = some false) :
    (∀ n ∈ r.deps, (e.fs.get n).isSome = true) ∧
    r.hash.disc = r.deps.map (fun n => (n, ((e.fs.get n).map (·.mtime)).getD 0)) := by
  obtain ⟨h1, _, h3⟩ := hrem
  have hst := checkDirty_stat e b
  have hd := checkDirty_clean_disc e hc b bm hb hnp h
  obtain ⟨_, _, hh⟩ := checkDirty_clean_facts e b bm hb hnp h
  rw [hst.toSameButCache.hashes, h3] at hh
  have hhash : r.hash = manifestOf (checkDirty e b).2 bm b := Option.some.inj hh
  constructor
  · intro n hn
    rw [← h1] at hn
    obtain ⟨f, hf, rfl⟩ := List.mem_map.mp hn
    obtain ⟨t, ht, _⟩ := hd f hf
    unfold mtimeOf at ht
    cases hx : e.fs.get (fileName e.g f) with
    | none => rw [hx] at ht; cases ht
    | some _ => rfl
  · rw [hhash, ← h1]
    unfold manifestOf
    simp only [List.map_map]
    have hdisc : discOf (checkDirty e b).2 b = discOf e b := by unfold discOf; rw [hst.toSameButCache.disc]
    rw [hdisc]
    apply List.map_congr_left
    intro f hf
    obtain ⟨t, ht, hcache⟩ := hd f hf
    simp only [Function.comp, hst.toSameButCache.g, hcache, Option.getD_some]
    unfold mtimeOf at ht
    rw [ht]; rfl

/-- `ensure_input_files` has no error for files that are sources or already stat()ed. -/
theorem ensureInputs_no_error (l : List Nat) : ∀ (e : Env),
    (∀ f ∈ l, fileInput e.g f = none ∨ Cached e f) → ∃ r e', ensureInputs e l = .ok (r, e') := by
  induction l with
  | nil => intro e _; exact ⟨none, e, rfl⟩
  | cons f fs ih =>
    intro e h
    unfold ensureInputs
    cases hcache : assocGet e.cache f with
    | some m =>
      simp only []
      split
      · exact ⟨_, _, rfl⟩
      · exact ih e (fun x hx => h x (by simp [hx]))
    | none =>
      simp only []
      have hsrc : fileInput e.g f = none := by
        rcases h f (by simp) with h' | h'
        · exact h'
        · unfold Cached at h'; rw [hcache] at h'; cases h'
      simp only [hsrc, Option.isSome_none, Bool.false_eq_true, if_false]
      split
      · exact ⟨_, _, rfl⟩
      · have hs := statFile_stat e f
        apply ih
        intro x hx
        rcases h x (by simp [hx]) with h' | h'
        · left; rw [hs.1.toSameButCache.g]; exact h'
        · right
          unfold Cached at h' ⊢
          simp only [statFile]
          by_cases hxf : x = f
          · subst hxf; rw [assocGet_put_self]; rfl
          · rw [assocGet_put_other _ _ _ _ hxf]; exact h'

/-! ### The latest record, as a function of the log -/

theorem lastRec_append (g : GraphM) (b : Nat) (a c : List Rec) (acc : Option Rec) :
    lastRec g b (a ++ c) acc = lastRec g b c (lastRec g b a acc) := by
  induction a generalizing acc with
  | nil => rfl
  | cons r rs ih => simp only [List.cons_append, lastRec]; split <;> exact ih _

theorem lastRec_none_attributed (g : GraphM) (b : Nat) (rs : List Rec) (acc : Option Rec)
    (h : ∀ r ∈ rs, Db.attributeRec (producerByName g) r.outs ≠ some b) : lastRec g b rs acc = acc := by
  induction rs generalizing acc with
  | nil => rfl
  | cons r rs ih =>
    unfold lastRec
    rw [if_neg (h r (by simp))]
    exact ih acc (fun x hx => h x (by simp [hx]))

/-- The record `record_finished` writes: outputs by name, the kept dependency list by name, and
    a signature whose dependency part lists exactly those names. -/
theorem recordFinished_record (e : Env) (b : Nat) (bm : BuildM) (hb : buildOf e.g b = some bm)
    (deps : Option (List Bytes)) :
    (recordFinished e b deps).log = e.log ∨
    ∃ rec, (recordFinished e b deps).log = e.log ++ [rec] ∧
      rec.outs = bm.outs.map (fileName (recordFinished e b deps).g) ∧
      rec.deps = (discOf (recordFinished e b deps) b).map (fileName (recordFinished e b deps).g) ∧
      rec.hash.disc.map (·.1) = rec.deps := by
  unfold recordFinished
  rw [hb]
  simp only []
  have hlog : (restat e bm b deps).2.2.log = e.log := by
    unfold restat
    simp only []
    rw [(statAllOutputs_same _ bm.outs).log, (statFold_same _ _).log]
    exact (keepDeps_frame _ _ _ _).1
  split
  · left; exact hlog
  · right
    refine ⟨_, by rw [hlog], rfl, rfl, ?_⟩
    simp [manifestOf, discOf]

end N2V.Work
