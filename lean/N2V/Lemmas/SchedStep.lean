/-
  Preservation of the scheduler invariant by every step of `Work::run`.
-/
import N2V.Lemmas.SchedWant
namespace N2V.Sched

/-- `pop_queued` with distinct pool names: the head of the first eligible pool's queue, removed
    from that pool only. -/
theorem popQueued_spec (ps ps' : List Pool) (id : Nat) (hnd : (ps.map (·.name)).Nodup)
    (h : popQueued ps = some (id, ps')) :
    ∃ p q, p ∈ ps ∧ p.queued = id :: q ∧ (p.depth = 0 ∨ p.running < p.depth) ∧
      ps' = ps.map (fun x => if x.name = p.name then { x with queued := q } else x) := by
  induction ps generalizing ps' with
  | nil => simp [popQueued] at h
  | cons p0 rest ih =>
    simp at hnd
    have tailCase : ∀ r, popQueued rest = some r → (r.1, p0 :: r.2) = (id, ps') →
        ∃ p q, p ∈ p0 :: rest ∧ p.queued = id :: q ∧ (p.depth = 0 ∨ p.running < p.depth) ∧
          ps' = (p0 :: rest).map (fun x => if x.name = p.name then { x with queued := q } else x) := by
      intro r hr he
      obtain ⟨rid, rps⟩ := r
      simp at he
      obtain ⟨e1, e2⟩ := he
      subst e1
      obtain ⟨p, q, hp, hq, hroom, hps⟩ := ih rps hnd.2 hr
      refine ⟨p, q, by simp [hp], hq, hroom, ?_⟩
      have hne : p0.name ≠ p.name := fun e => hnd.1 p hp e.symm
      simp [hne, ← e2, hps]
    unfold popQueued at h
    split at h
    · rename_i hroom
      split at h
      · rename_i q hq
        cases h
        refine ⟨p0, q, by simp, hq, hroom, ?_⟩
        simp
        rw [List.map_congr_left (g := fun x => x)]
        · simp
        · intro x hx
          have : x.name ≠ p0.name := fun e => hnd.1 x hx e
          simp [this]
      · cases hr : popQueued rest with
        | none => simp [hr] at h
        | some r => simp [hr] at h; exact tailCase r hr (by simp [h])
    · cases hr : popQueued rest with
      | none => simp [hr] at h
      | some r => simp [hr] at h; exact tailCase r hr (by simp [h])

/-- Ghost fields do not matter to the invariant. -/
def SameCore (s s' : S) : Prop :=
  s'.st = s.st ∧ s'.counts = s.counts ∧ s'.pending = s.pending ∧ s'.ready = s.ready ∧
  s'.pools = s.pools ∧ s'.running = s.running

theorem InvCore.of_sameCore {g : Graph} {s s' : S} (h : SameCore s s') (inv : InvCore g s) : InvCore g s' := by
  obtain ⟨h1, h2, h3, h4, h5, _⟩ := h
  exact { valid := by rw [h1]; exact inv.valid, readySt := by rw [h1, h4]; exact inv.readySt,
          readyNodup := by rw [h4]; exact inv.readyNodup, poolNames := by rw [h5]; exact inv.poolNames,
          queuedSt := by rw [h1, h5]; exact inv.queuedSt, queuedNodup := by rw [h5]; exact inv.queuedNodup,
          poolRunning := by rw [h1, h5]; exact inv.poolRunning, counts := by rw [h1, h2]; exact inv.counts,
          pending := by rw [h1, h3]; exact inv.pending, ordered := by rw [h1]; exact inv.ordered }

theorem Inv.of_sameCore {g : Graph} {par : Nat} {s s' : S} (h : SameCore s s') (inv : Inv g par s) : Inv g par s' := by
  have hc := InvCore.of_sameCore h inv.toInvCore
  obtain ⟨h1, _, _, _, h5, h6⟩ := h
  exact { hc with running := by rw [h1, h6]; exact inv.running, parBound := by rw [h6]; exact inv.parBound,
                  depthBound := by rw [h5]; exact inv.depthBound }

end N2V.Sched

namespace N2V.Sched

/-- One `set`, all of the core at once. -/
theorem set_core {g : Graph} {s s' : S} {bid : Nat} {new : St}
    (inv : InvCore g s) (h : set g s bid new = .ok s') (hid : bid < g.nBuilds)
    (hnew : new ≠ .unknown) (hprev : s.st bid ≠ .done ∧ s.st bid ≠ .failed)
    (hready : s.st bid = .ready → bid ∉ s.ready)
    (hqueued : s.st bid = .queued → ∀ p ∈ s.pools, bid ∉ p.queued)
    (hord : gated new → ∀ f ∈ (g.build bid).ordering, ∀ p, g.producer f = some p → s.st p = .done) :
    InvCore g s' := by
  obtain ⟨g1, g2, g3, g4, g5⟩ := set_generic inv h hid hnew hprev
  obtain ⟨f1, f2, f3, f4, f5⟩ := set_frame inv h hprev.1 hready hqueued hord
  exact { valid := g1, readySt := f1, readyNodup := f2, poolNames := g2, queuedSt := f3, queuedNodup := f4,
          poolRunning := g3, counts := g4, pending := g5, ordered := f5 }

/-- Limits after a `set` that neither starts nor finishes a command. -/
theorem set_limits_same {g : Graph} {par : Nat} {s s' : S} {bid : Nat} {new : St}
    (inv : Inv g par s) (h : set g s bid new = .ok s') (hid : bid < g.nBuilds)
    (h0 : runDelta (s.st bid) new = 0) :
    s'.running = cnt g.nBuilds (fun b => s'.st b == .running) ∧ s'.running ≤ par ∧
    ∀ p ∈ s'.pools, p.depth > 0 → p.running ≤ p.depth := by
  have hr := set_running h hid
  obtain ⟨_, _, -, -, -, -, -, -, -, hrun, -⟩ := set_spec h
  have hpools := set_pools h inv.poolNames
  refine ⟨?_, ?_, ?_⟩
  · rw [hrun, inv.running]; rw [h0] at hr; omega
  · rw [hrun]; exact inv.parBound
  · intro p' hp' hd
    rw [hpools, h0] at hp'
    rw [map_bump_zero] at hp'
    exact inv.depthBound p' hp' hd

theorem runDelta_zero {a b : St} (ha : a ≠ .running) (hb : b ≠ .running) : runDelta a b = 0 := by
  unfold runDelta; simp [ha, hb]

/-- The promotion loop of `ready_dependents`. -/
theorem promote_inv {g : Graph} {par : Nat} (l : List Nat) (s s' : S) (inv : Inv g par s)
    (hl : l.Nodup)
    (hw : ∀ d ∈ l, s.st d = .want ∧ d < g.nBuilds ∧
      ∀ f ∈ (g.build d).ordering, ∀ p, g.producer f = some p → s.st p = .done)
    (h : promote g s l = .ok s') : Inv g par s' := by
  induction l generalizing s with
  | nil => simp [promote] at h; rw [← h]; exact inv
  | cons d ds ih =>
    unfold promote at h
    split at h
    · rename_i s1 hs
      have hd := hw d (by simp)
      have hcore := set_core inv.toInvCore hs hd.2.1 (by simp) (by rw [hd.1]; simp)
        (by rw [hd.1]; simp) (by rw [hd.1]; simp) (fun _ => hd.2.2)
      have hlim := set_limits_same inv hs hd.2.1 (runDelta_zero (by rw [hd.1]; simp) (by simp))
      have inv1 : Inv g par s1 := { hcore with running := hlim.1, parBound := hlim.2.1, depthBound := hlim.2.2 }
      obtain ⟨_, _, -, -, hst, -⟩ := set_spec hs
      simp at hl
      apply ih s1 inv1 hl.2 _ h
      intro x hx
      have hxw := hw x (by simp [hx])
      have hne : x ≠ d := fun e => hl.1 (e ▸ hx)
      refine ⟨by rw [hst, upd_other _ _ _ _ hne]; exact hxw.1, hxw.2.1, ?_⟩
      intro f hf p hp
      have := hxw.2.2 f hf p hp
      have hpd : p ≠ d := by intro e; subst e; rw [hd.1] at this; cases this
      rw [hst, upd_other _ _ _ _ hpd]; exact this
    · rename_i hne; exact absurd h (hne s')

end N2V.Sched

namespace N2V.Sched

theorem mem_dedup (l : List Nat) (x : Nat) : x ∈ dedup l ↔ x ∈ l := by
  induction l with
  | nil => simp [dedup]
  | cons a l ih =>
    unfold dedup
    split
    · rename_i h
      simp at h
      rw [ih]; simp
      intro e; subst e; exact h
    · simp [ih]

theorem nodup_dedup (l : List Nat) : (dedup l).Nodup := by
  induction l with
  | nil => simp [dedup]
  | cons a l ih =>
    unfold dedup
    split
    · exact ih
    · rename_i h
      simp at h
      simp [ih]
      intro hm; exact h ((mem_dedup l a).mp hm)

theorem nodup_orderBy (perm cands : List Nat) (hc : cands.Nodup) : (orderBy perm cands).Nodup := by
  unfold orderBy
  rw [List.nodup_append]
  refine ⟨nodup_dedup _, hc.filter _, ?_⟩
  intro a ha b hb
  rw [mem_dedup] at ha
  simp at ha hb
  intro e; subst e
  exact hb.2 ha.1

theorem mem_orderBy (perm cands : List Nat) (x : Nat) (h : x ∈ orderBy perm cands) : x ∈ cands := by
  unfold orderBy at h
  simp at h
  rcases h with h | h
  · rw [mem_dedup] at h; simp at h; exact h.2
  · exact h.1

theorem promotable_spec (g : Graph) (s : S) (id d : Nat) (h : d ∈ promotable g s id) :
    s.st d = .want ∧ recheckReady g s d = true := by
  unfold promotable at h
  rw [mem_dedup] at h
  simp at h
  exact ⟨h.2.1, h.2.2⟩

/-- `ready_dependents` from a Ready (already popped) or Running build. `s0.running` is the
    runner's count AFTER the finished task was subtracted, if it was running. -/
theorem readyDependents_inv {g : Graph} {par : Nat} {s0 s' : S} {id : Nat} {perm : List Nat}
    (core : InvCore g s0) (hid : id < g.nBuilds)
    (hst : s0.st id = .ready ∨ s0.st id = .running)
    (hnotin : s0.st id = .ready → id ∉ s0.ready)
    (hrun : (s0.running : Int) = cnt g.nBuilds (fun b => s0.st b == .running) - (if s0.st id = .running then 1 else 0))
    (hpar : s0.running ≤ par)
    (hdepth : ∀ p ∈ s0.pools, p.depth > 0 → p.running ≤ p.depth)
    (h : readyDependents g s0 id perm = .ok s') : Inv g par s' := by
  unfold readyDependents at h
  split at h
  · rename_i s1 hs
    have hgated : gated (s0.st id) := by
      rcases hst with e | e <;> rw [e] <;> simp [gated]
    have hprev : s0.st id ≠ .done ∧ s0.st id ≠ .failed := by
      rcases hst with e | e <;> rw [e] <;> simp
    have core1 := set_core core hs hid (by simp) hprev hnotin
      (by intro e; rcases hst with e' | e' <;> rw [e'] at e <;> cases e)
      (fun _ => core.ordered id hgated)
    have hr := set_running hs hid
    obtain ⟨_, _, -, -, hst1, -, -, -, -, hrun1, -⟩ := set_spec hs
    have hpools := set_pools hs core.poolNames
    have inv1 : Inv g par s1 := by
      refine { core1 with running := ?_, parBound := ?_, depthBound := ?_ }
      · rw [hrun1]
        unfold runDelta at hr
        rcases hst with e | e <;> simp [e] at hr hrun <;> omega
      · rw [hrun1]; exact hpar
      · intro p' hp' hd
        rw [hpools] at hp'
        simp only [List.mem_map] at hp'
        obtain ⟨p, hp, rfl⟩ := hp'
        simp at hd
        have := hdepth p hp hd
        rw [bump_running, bump_depth]
        have hle : runDelta (s0.st id) .done ≤ 0 := by
          unfold runDelta; split <;> simp
        split <;> omega
    apply promote_inv _ s1 s' inv1 (nodup_orderBy _ _ (nodup_dedup _)) _ h
    intro d hd
    have hm := mem_orderBy _ _ _ hd
    obtain ⟨hw, hrr⟩ := promotable_spec g s1 id d hm
    refine ⟨hw, core1.valid d (by rw [hw]; simp), recheckReady_sound g s1 d hrr⟩
  · rename_i hne; exact absurd h (hne s')

end N2V.Sched

namespace N2V.Sched

/-- Append `id` to the queue of the pool called `name`. -/
def addQ (name : Bytes) (id : Nat) (p : Pool) : Pool :=
  if p.name = name then { p with queued := p.queued ++ [id] } else p

@[simp] theorem addQ_name (n : Bytes) (i : Nat) (p : Pool) : (addQ n i p).name = p.name := by
  unfold addQ; split <;> rfl
@[simp] theorem addQ_running (n : Bytes) (i : Nat) (p : Pool) : (addQ n i p).running = p.running := by
  unfold addQ; split <;> rfl
@[simp] theorem addQ_depth (n : Bytes) (i : Nat) (p : Pool) : (addQ n i p).depth = p.depth := by
  unfold addQ; split <;> rfl
theorem addQ_queued (n : Bytes) (i : Nat) (p : Pool) :
    (addQ n i p).queued = if p.name = n then p.queued ++ [i] else p.queued := by
  unfold addQ; split <;> rfl

theorem modPool_queue_map (ps ps' : List Pool) (name : Bytes) (id : Nat)
    (hnd : (ps.map (·.name)).Nodup)
    (h : modPool ps name (fun p => { p with queued := p.queued ++ [id] }) = some ps') :
    ps' = ps.map (addQ name id) := by
  have := modPool_eq_map ps name _ ps' hnd h
  rw [this]; apply List.map_congr_left; intro p _; unfold addQ; rfl

/-- `enqueue` (the dirty branch of the ready loop). -/
theorem enqueue_inv {g : Graph} {par : Nat} {s s1 : S} {id : Nat} {rest : List Nat}
    (inv : Inv g par s) (hr : s.ready = id :: rest)
    (h : enqueueRun g { s with ready := rest } id = .inl s1) : Inv g par s1 := by
  have hstid : s.st id = .ready := inv.readySt id (by simp [hr])
  have hid : id < g.nBuilds := inv.valid id (by rw [hstid]; simp)
  have hnd := inv.readyNodup
  rw [hr] at hnd
  simp at hnd
  -- the state with `id` popped off the ready queue
  have core0 : InvCore g { s with ready := rest } :=
    { valid := inv.valid, readySt := fun x hx => inv.readySt x (by simp [hr, hx]), readyNodup := hnd.2,
      poolNames := inv.poolNames, queuedSt := inv.queuedSt, queuedNodup := inv.queuedNodup,
      poolRunning := inv.poolRunning, counts := inv.counts, pending := inv.pending, ordered := inv.ordered }
  unfold enqueueRun at h
  split at h
  · rename_i s2 hs
    have core2 := set_core core0 hs hid (by simp) (by simp [hstid]) (fun _ => hnd.1)
      (by intro e; simp [hstid] at e) (fun _ => inv.ordered id (by rw [hstid]; simp [gated]))
    have inv0 : Inv g par { s with ready := rest } :=
      { core0 with running := inv.running, parBound := inv.parBound, depthBound := inv.depthBound }
    have hlim := set_limits_same inv0 hs hid (runDelta_zero (by simp [hstid]) (by simp))
    obtain ⟨_, _, -, -, hst2, -⟩ := set_spec hs
    have hpools2 := set_pools hs core0.poolNames
    -- `id` was Ready, so it is in no queue
    have hfree : ∀ p ∈ s2.pools, id ∉ p.queued := by
      intro p hp hm
      rw [hpools2] at hp
      simp only [List.mem_map] at hp
      obtain ⟨p0, hp0, rfl⟩ := hp
      simp at hm
      have := (inv.queuedSt p0 hp0 id hm).1
      rw [hstid] at this; cases this
    split at h
    · rename_i pools hm
      cases h
      have hmap := modPool_queue_map _ _ _ _ core2.poolNames hm
      have hq2 : s2.st id = .queued := by rw [hst2]; simp
      refine { valid := core2.valid, readySt := core2.readySt, readyNodup := core2.readyNodup,
               poolNames := ?_, queuedSt := ?_, queuedNodup := ?_, poolRunning := ?_,
               counts := core2.counts, pending := core2.pending, ordered := core2.ordered,
               running := hlim.1, parBound := hlim.2.1, depthBound := ?_ }
      · show ((pools.map (·.name))).Nodup
        rw [hmap, List.map_map]
        have : ((fun x : Pool => x.name) ∘ addQ (g.build id).pool id) = (fun x : Pool => x.name) := by
          funext p; simp
        rw [this]; exact core2.poolNames
      · intro p' hp' q hq
        change p' ∈ pools at hp'
        rw [hmap] at hp'
        simp only [List.mem_map] at hp'
        obtain ⟨p, hp, rfl⟩ := hp'
        rw [addQ_queued] at hq
        rw [addQ_name]
        show s2.st q = .queued ∧ _
        split at hq
        · rename_i hn
          simp at hq
          rcases hq with hq | rfl
          · exact core2.queuedSt p hp q hq
          · exact ⟨hq2, hn.symm⟩
        · exact core2.queuedSt p hp q hq
      · intro p' hp'
        change p' ∈ pools at hp'
        rw [hmap] at hp'
        simp only [List.mem_map] at hp'
        obtain ⟨p, hp, rfl⟩ := hp'
        rw [addQ_queued]
        split
        · rw [List.nodup_append]
          refine ⟨core2.queuedNodup p hp, by simp, ?_⟩
          intro a ha b hb
          simp at hb; subst hb
          intro e; subst e
          exact hfree p hp ha
        · exact core2.queuedNodup p hp
      · intro p' hp'
        change p' ∈ pools at hp'
        rw [hmap] at hp'
        simp only [List.mem_map] at hp'
        obtain ⟨p, hp, rfl⟩ := hp'
        have := core2.poolRunning p hp
        simpa using this
      · intro p' hp' hd
        change p' ∈ pools at hp'
        rw [hmap] at hp'
        simp only [List.mem_map] at hp'
        obtain ⟨p, hp, rfl⟩ := hp'
        simp only [addQ_depth, addQ_running] at hd ⊢
        exact hlim.2.2 p hp hd
    · cases h
  · rename_i hne
    unfold resToRun at h
    split at h
    · rename_i sx hsx; exact absurd hsx (hne sx)
    · cases h
    · cases h
    · cases h

end N2V.Sched

namespace N2V.Sched

theorem pool_eq_of_name (ps : List Pool) (hnd : (ps.map (·.name)).Nodup) (x y : Pool)
    (hx : x ∈ ps) (hy : y ∈ ps) (h : x.name = y.name) : x = y := by
  induction ps with
  | nil => simp at hx
  | cons a rest ih =>
    simp at hnd hx hy
    rcases hx with rfl | hx <;> rcases hy with rfl | hy
    · rfl
    · exact absurd h.symm (hnd.1 y hy)
    · exact absurd h (hnd.1 x hx)
    · exact ih hnd.2 hx hy

/-- Remove the head of the queue of the pool called `name`. -/
def popQ (name : Bytes) (q : List Nat) (p : Pool) : Pool :=
  if p.name = name then { p with queued := q } else p

/-- Starting a queued build (one iteration of the start loop). -/
theorem start_inv {g : Graph} {par : Nat} {s s1 : S} {id : Nat} {pools : List Pool}
    (inv : Inv g par s) (hlt : s.running < par) (hpop : popQueued s.pools = some (id, pools))
    (h : set g { s with pools := pools } id .running = .ok s1) :
    Inv g par { s1 with running := s1.running + 1, trace := Ev.start id :: s1.trace } := by
  obtain ⟨p, q, hp, hq, hroom, hps⟩ := popQueued_spec _ _ _ inv.poolNames hpop
  have hpq := inv.queuedSt p hp id (by simp [hq])
  have hstid : s.st id = .queued := hpq.1
  have hid : id < g.nBuilds := inv.valid id (by rw [hstid]; simp)
  have hqnd := inv.queuedNodup p hp
  rw [hq] at hqnd
  simp at hqnd
  -- membership in the popped pools
  have hmem : ∀ x ∈ pools, ∃ x0 ∈ s.pools, x.name = x0.name ∧ x.running = x0.running ∧ x.depth = x0.depth ∧
      (x.queued = x0.queued ∨ (x0.name = p.name ∧ x.queued = q)) := by
    intro x hx
    rw [hps] at hx
    simp only [List.mem_map] at hx
    obtain ⟨x0, hx0, rfl⟩ := hx
    refine ⟨x0, hx0, ?_⟩
    split
    · rename_i hn; exact ⟨rfl, rfl, rfl, Or.inr ⟨hn, rfl⟩⟩
    · exact ⟨rfl, rfl, rfl, Or.inl rfl⟩
  have hnames : (pools.map (·.name)) = s.pools.map (·.name) := by
    rw [hps, List.map_map]; apply List.map_congr_left; intro x _; simp; split <;> rfl
  have sub : ∀ x ∈ pools, ∀ y ∈ x.queued, ∃ x0 ∈ s.pools, x0.name = x.name ∧ y ∈ x0.queued := by
    intro x hx y hy
    obtain ⟨x0, hx0, hn, _, _, hqq⟩ := hmem x hx
    rcases hqq with e | ⟨hn2, e⟩
    · exact ⟨x0, hx0, hn.symm, e ▸ hy⟩
    · refine ⟨x0, hx0, hn.symm, ?_⟩
      -- x0 is the pool p itself (distinct names)
      have : x0 = p := by
        exact pool_eq_of_name _ inv.poolNames _ _ hx0 hp hn2
      rw [this, hq]; simp [e ▸ hy]
  have core0 : InvCore g { s with pools := pools } := by
    refine { valid := inv.valid, readySt := inv.readySt, readyNodup := inv.readyNodup, poolNames := ?_,
             queuedSt := ?_, queuedNodup := ?_, poolRunning := ?_, counts := inv.counts, pending := inv.pending,
             ordered := inv.ordered }
    · show (pools.map (·.name)).Nodup
      rw [hnames]; exact inv.poolNames
    · intro x hx y hy
      obtain ⟨x0, hx0, hn, hy0⟩ := sub x hx y hy
      have := inv.queuedSt x0 hx0 y hy0
      exact ⟨this.1, by rw [← hn]; exact this.2⟩
    · intro x hx
      obtain ⟨x0, hx0, _, _, _, hqq⟩ := hmem x hx
      rcases hqq with e | ⟨hn2, e⟩
      · rw [e]; exact inv.queuedNodup x0 hx0
      · rw [e]; exact hqnd.2
    · intro x hx
      obtain ⟨x0, hx0, hn, hr, _, _⟩ := hmem x hx
      show x.running = _
      rw [hr, hn]; exact inv.poolRunning x0 hx0
  -- `id` is in no queue any more
  have hfree : ∀ x ∈ pools, id ∉ x.queued := by
    intro x hx hm
    obtain ⟨x0, hx0, hn, _, _, hqq⟩ := hmem x hx
    rcases hqq with e | ⟨hn2, e⟩
    · rw [e] at hm
      -- a queue holding `id` belongs to the pool of `id`, i.e. `p`; but `p`'s queue was replaced
      have h1 := (inv.queuedSt x0 hx0 id hm).2
      have hx0p : x0 = p := pool_eq_of_name _ inv.poolNames _ _ hx0 hp (by rw [← h1, hpq.2])
      rw [hps] at hx
      simp only [List.mem_map] at hx
      obtain ⟨y, hy, hyx⟩ := hx
      have hyp : y = p := by
        apply pool_eq_of_name _ inv.poolNames _ _ hy hp
        rw [← hx0p, ← hn, ← hyx]; split <;> rfl
      have hxq : x.queued = q := by rw [← hyx, hyp]; simp
      rw [hxq, hx0p, hq] at e
      exact absurd (congrArg List.length e) (by simp)
    · rw [e] at hm; exact hqnd.1 hm
  have core1 := set_core core0 h hid (by simp) (by simp [hstid])
    (by intro e; simp [hstid] at e) (fun _ => hfree)
    (fun _ => inv.ordered id (by rw [hstid]; simp [gated]))
  have hr := set_running h hid
  obtain ⟨_, _, -, -, hst1, -, -, -, -, hrun1, -⟩ := set_spec h
  have hpools1 := set_pools h core0.poolNames
  refine { core1 with running := ?_, parBound := ?_, depthBound := ?_ }
  · show s1.running + 1 = (cnt g.nBuilds (fun b => s1.st b == .running) : Int)
    rw [hrun1]
    have := inv.running
    unfold runDelta at hr
    simp [hstid] at hr
    show s.running + 1 = (cnt g.nBuilds (fun b => s1.st b == .running) : Int)
    omega
  · show s1.running + 1 ≤ par
    rw [hrun1]; show s.running + 1 ≤ par; omega
  · intro x hx hd
    change x ∈ s1.pools at hx
    rw [hpools1] at hx
    simp only [List.mem_map] at hx
    obtain ⟨y, hy, rfl⟩ := hx
    obtain ⟨y0, hy0, hn, hrn, hdp, _⟩ := hmem y hy
    rw [bump_depth] at hd
    rw [bump_running, bump_depth]
    have hb := inv.depthBound y0 hy0 (by rw [← hdp]; exact hd)
    unfold runDelta
    simp [hstid]
    split
    · rename_i hny
      -- this is the pool the build was popped from: it had room
      have hy0p : y0 = p := pool_eq_of_name _ inv.poolNames _ _ hy0 hp (by rw [← hn, hny, hpq.2])
      subst hy0p
      rcases hroom with h0 | hlt2
      · omega
      · omega
    · omega

end N2V.Sched

namespace N2V.Sched

/-- A running command failed. -/
theorem failed_inv {g : Graph} {par : Nat} {s s1 : S} {id : Nat} (s0 : S)
    (inv : Inv g par s) (hst : s.st id = .running)
    (hcore : s0.st = s.st ∧ s0.counts = s.counts ∧ s0.pending = s.pending ∧ s0.ready = s.ready ∧ s0.pools = s.pools)
    (hrun0 : s0.running = s.running - 1)
    (h : set g s0 id .failed = .ok s1) : Inv g par s1 := by
  obtain ⟨c1, c2, c3, c4, c5⟩ := hcore
  have hid : id < g.nBuilds := inv.valid id (by rw [hst]; simp)
  have core0 : InvCore g s0 :=
    { valid := by rw [c1]; exact inv.valid, readySt := by rw [c1, c4]; exact inv.readySt,
      readyNodup := by rw [c4]; exact inv.readyNodup, poolNames := by rw [c5]; exact inv.poolNames,
      queuedSt := by rw [c1, c5]; exact inv.queuedSt, queuedNodup := by rw [c5]; exact inv.queuedNodup,
      poolRunning := by rw [c1, c5]; exact inv.poolRunning, counts := by rw [c1, c2]; exact inv.counts,
      pending := by rw [c1, c3]; exact inv.pending, ordered := by rw [c1]; exact inv.ordered }
  have hst0 : s0.st id = .running := by rw [c1]; exact hst
  have core1 := set_core core0 h hid (by simp) (by simp [hst0]) (by intro e; simp [hst0] at e)
    (by intro e; simp [hst0] at e) (fun _ => core0.ordered id (by rw [hst0]; simp [gated]))
  have hr := set_running h hid
  obtain ⟨_, _, -, -, -, -, -, -, -, hrun1, -⟩ := set_spec h
  have hpools1 := set_pools h core0.poolNames
  refine { core1 with running := ?_, parBound := ?_, depthBound := ?_ }
  · rw [hrun1, hrun0]
    have := inv.running
    unfold runDelta at hr
    simp [hst0] at hr
    rw [c1] at hr
    omega
  · rw [hrun1, hrun0]; have := inv.parBound; omega
  · intro x hx hd
    rw [hpools1] at hx
    simp only [List.mem_map] at hx
    obtain ⟨y, hy, rfl⟩ := hx
    rw [bump_depth] at hd
    rw [bump_running, bump_depth]
    have := inv.depthBound y (by rw [← c5]; exact hy) hd
    unfold runDelta
    simp [hst0]
    split <;> omega

/-- A ready build turned out clean (or was adopted): `ready_dependents` on it. -/
theorem clean_inv {g : Graph} {par : Nat} {s s1 : S} {id : Nat} {rest perm : List Nat}
    (inv : Inv g par s) (hr : s.ready = id :: rest)
    (h : readyDependents g { s with ready := rest } id perm = .ok s1) : Inv g par s1 := by
  have hstid : s.st id = .ready := inv.readySt id (by simp [hr])
  have hid : id < g.nBuilds := inv.valid id (by rw [hstid]; simp)
  have hnd := inv.readyNodup
  rw [hr] at hnd
  simp at hnd
  have core0 : InvCore g { s with ready := rest } :=
    { valid := inv.valid, readySt := fun x hx => inv.readySt x (by simp [hr, hx]), readyNodup := hnd.2,
      poolNames := inv.poolNames, queuedSt := inv.queuedSt, queuedNodup := inv.queuedNodup,
      poolRunning := inv.poolRunning, counts := inv.counts, pending := inv.pending, ordered := inv.ordered }
  apply readyDependents_inv core0 hid (Or.inl hstid) (fun _ => hnd.1) _ inv.parBound inv.depthBound h
  show (s.running : Int) = _
  simp [hstid]
  exact inv.running

/-- A running command succeeded: `ready_dependents` on it (the runner already counted it out). -/
theorem succeeded_inv {g : Graph} {par : Nat} {s s1 : S} {id : Nat} {perm : List Nat} (s0 : S)
    (inv : Inv g par s) (hst : s.st id = .running)
    (hcore : s0.st = s.st ∧ s0.counts = s.counts ∧ s0.pending = s.pending ∧ s0.ready = s.ready ∧ s0.pools = s.pools)
    (hrun0 : s0.running = s.running - 1)
    (h : readyDependents g s0 id perm = .ok s1) : Inv g par s1 := by
  obtain ⟨c1, c2, c3, c4, c5⟩ := hcore
  have hid : id < g.nBuilds := inv.valid id (by rw [hst]; simp)
  have core0 : InvCore g s0 :=
    { valid := by rw [c1]; exact inv.valid, readySt := by rw [c1, c4]; exact inv.readySt,
      readyNodup := by rw [c4]; exact inv.readyNodup, poolNames := by rw [c5]; exact inv.poolNames,
      queuedSt := by rw [c1, c5]; exact inv.queuedSt, queuedNodup := by rw [c5]; exact inv.queuedNodup,
      poolRunning := by rw [c1, c5]; exact inv.poolRunning, counts := by rw [c1, c2]; exact inv.counts,
      pending := by rw [c1, c3]; exact inv.pending, ordered := by rw [c1]; exact inv.ordered }
  have hst0 : s0.st id = .running := by rw [c1]; exact hst
  apply readyDependents_inv core0 hid (Or.inr hst0) (by intro e; simp [hst0] at e) _ _ _ h
  · rw [hrun0, c1]; simp [hst]; have := inv.running; omega
  · rw [hrun0]; have := inv.parBound; omega
  · rw [c5]; exact inv.depthBound

end N2V.Sched


namespace N2V.Sched

theorem resToRun_inl {s0 s1 : S} {r : Res S} (h : resToRun s0 r = .inl s1) : r = .ok s1 := by
  unfold resToRun at h
  split at h
  · cases h; rfl
  all_goals cases h

theorem resToRun_inr {s0 se : S} {r : Res S} {x : RunResult} (h : resToRun s0 r = .inr (se, x)) : se = s0 := by
  unfold resToRun at h
  split at h
  · cases h
  all_goals (cases h; rfl)

/-- The start loop keeps the invariant (normal exit). -/
theorem startLoop_inl_inv {g : Graph} {par : Nat} (fuel : Nat) (s : S) (p : Bool) (inv : Inv g par s)
    (s' : S) (p' : Bool) (h : startLoop g par fuel s p = .inl (s', p')) : Inv g par s' := by
  induction fuel generalizing s p with
  | zero => simp [startLoop] at h
  | succ fuel ih =>
    unfold startLoop at h
    split at h
    · rename_i hlt
      split at h
      · cases h; exact inv
      · rename_i id pools hpop
        split at h
        · rename_i s1 hs
          exact ih _ _ (start_inv inv hlt hpop (resToRun_inl hs)) h
        · cases h
    · cases h; exact inv

/-- ... and on its error exit the state is the one before the failing `set`. -/
theorem startLoop_inr_inv {g : Graph} {par : Nat} (fuel : Nat) (s : S) (p : Bool) (inv : Inv g par s)
    (se : S) (r : RunResult) (h : startLoop g par fuel s p = .inr (se, r)) : Inv g par se := by
  induction fuel generalizing s p with
  | zero => simp [startLoop] at h; rw [← h.1]; exact inv
  | succ fuel ih =>
    unfold startLoop at h
    split at h
    · rename_i hlt
      split at h
      · cases h
      · rename_i id pools hpop
        split at h
        · rename_i s1 hs
          exact ih _ _ (start_inv inv hlt hpop (resToRun_inl hs)) h
        · rename_i r' hr
          cases h
          rw [resToRun_inr hr]; exact inv
    · cases h

/-- The ready loop keeps the invariant on its normal exit. -/
theorem readyLoop_inl_inv {E : Type} {g : Graph} {par : Nat} (c : Choices E) (fuel : Nat) (s : S) (e : E)
    (perms : List (List Nat)) (p : Bool) (inv : Inv g par s)
    (s' : S) (e' : E) (perms' : List (List Nat)) (p' : Bool)
    (h : readyLoop g c fuel s e perms p = .inl (s', e', perms', p')) : Inv g par s' := by
  induction fuel generalizing s e perms p with
  | zero => simp [readyLoop] at h
  | succ fuel ih =>
    unfold readyLoop at h
    split at h
    · cases h; exact inv
    · rename_i id rest hr
      simp only [] at h
      split at h
      · cases h
      · rename_i dirty e1 hc
        split at h
        · split at h
          · rename_i s1 hs
            exact ih _ _ _ _ (clean_inv inv hr (resToRun_inl hs)) h
          · cases h
        · split at h
          · split at h
            · rename_i s1 hs
              exact ih _ _ _ _ (clean_inv inv hr (resToRun_inl hs)) h
            · cases h
          · split at h
            · rename_i s1 hs
              exact ih _ _ _ _ (enqueue_inv inv hr hs) h
            · cases h

/-- **`Work::run` returns success only in a state that satisfies the whole invariant**; every
    state in which it went round its loop did (each iteration is a sequence of invariant
    preserving steps: start / clean / adopt / enqueue / finished-ok / finished-failed). -/
theorem runLoop_inv {E : Type} {g : Graph} {par : Nat} (c : Choices E) (fuel : Nat) (s : S) (e : E)
    (perms : List (List Nat)) (fin : List (Nat × Term)) (inv : Inv g par s)
    (h : (runLoop g par c fuel s e perms fin).result = .ok true) :
    Inv g par (runLoop g par c fuel s e perms fin).s := by
  induction fuel generalizing s e perms fin with
  | zero => simp [runLoop] at h
  | succ fuel ih =>
    unfold runLoop at h ⊢
    by_cases hp : s.pending ≤ 0
    · simp only [hp, if_true]; exact inv
    · simp only [hp, if_false] at h ⊢
      have inv0 : Inv g par { s with trace := Ev.update (countsList s.counts) :: s.trace } :=
        Inv.of_sameCore (s := s) ⟨rfl, rfl, rfl, rfl, rfl, rfl⟩ inv
      cases h1 : startLoop g par (g.nBuilds + 1) { s with trace := Ev.update (countsList s.counts) :: s.trace } false with
      | inr r =>
        obtain ⟨se, rr⟩ := r
        simp only [h1] at h
        exact absurd h1 (by rw [h]; exact startLoop_not_ok _ _ _ _ _ _ _)
      | inl r =>
        obtain ⟨s1, p1⟩ := r
        simp only [h1] at h ⊢
        have i1 := startLoop_inl_inv _ _ _ inv0 _ _ h1
        cases h2 : readyLoop g c (g.nBuilds + 1) s1 e perms false with
        | inr r =>
          obtain ⟨se, e2, rr⟩ := r
          simp only [h2] at h
          exact absurd h2 (by rw [h]; exact readyLoop_not_ok _ _ _ _ _ _ _ _ _ _)
        | inl r =>
          obtain ⟨s2, e2, perms2, p2⟩ := r
          simp only [h2] at h ⊢
          have i2 := readyLoop_inl_inv c _ _ _ _ _ i1 _ _ _ _ h2
          by_cases hpp : (p1 || p2) = true
          · simp only [hpp, if_true] at h ⊢; exact ih _ _ _ _ i2 h
          · simp only [hpp, Bool.false_eq_true, if_false] at h ⊢
            by_cases hrun : s2.running ≤ 0
            · simp only [hrun, if_true] at h; split at h <;> simp at h
            · simp only [hrun, if_false] at h ⊢
              cases fin with
              | nil => simp at h
              | cons ft fin' =>
                obtain ⟨id, t⟩ := ft
                simp only at h ⊢
                by_cases hst : s2.st id ≠ .running
                · rw [if_pos hst] at h; simp at h
                · rw [if_neg hst] at h ⊢
                  have hst' : s2.st id = .running := by simpa using hst
                  cases t with
                  | interrupted => simp at h
                  | failure =>
                    simp only at h ⊢
                    cases hfl : s2.failuresLeft with
                    | none =>
                      simp only [hfl] at h ⊢
                      generalize h4 : resToRun _ _ = r4 at h ⊢
                      cases r4 with
                      | inl s4 =>
                        simp only at h ⊢
                        refine ih _ _ _ _ (failed_inv _ i2 hst' ?_ ?_ (resToRun_inl h4)) h
                        · exact ⟨rfl, rfl, rfl, rfl, rfl⟩
                        · rfl
                      | inr r =>
                        obtain ⟨se, rr⟩ := r
                        simp only at h
                        exact absurd h4 (by rw [h]; exact resToRun_not_ok _ _ _ _)
                    | some n =>
                      simp only [hfl] at h ⊢
                      by_cases hn0 : n = 0
                      · rw [if_pos hn0] at h; simp at h
                      · rw [if_neg hn0] at h ⊢
                        by_cases hn1 : n - 1 = 0
                        · rw [if_pos hn1] at h; simp at h
                        · rw [if_neg hn1] at h ⊢
                          generalize h4 : resToRun _ _ = r4 at h ⊢
                          cases r4 with
                          | inl s4 =>
                            simp only at h ⊢
                            refine ih _ _ _ _ (failed_inv _ i2 hst' ?_ ?_ (resToRun_inl h4)) h
                            · exact ⟨rfl, rfl, rfl, rfl, rfl⟩
                            · rfl
                          | inr r =>
                            obtain ⟨se, rr⟩ := r
                            simp only at h
                            exact absurd h4 (by rw [h]; exact resToRun_not_ok _ _ _ _)
                  | success =>
                    simp only at h ⊢
                    generalize h4 : resToRun _ _ = r4 at h ⊢
                    cases r4 with
                    | inl s4 =>
                      simp only at h ⊢
                      refine ih _ _ _ _ (succeeded_inv _ i2 hst' ?_ ?_ (resToRun_inl h4)) h
                      · exact ⟨rfl, rfl, rfl, rfl, rfl⟩
                      · rfl
                    | inr r =>
                      obtain ⟨se, rr⟩ := r
                      simp only at h
                      exact absurd h4 (by rw [h]; exact resToRun_not_ok _ _ _ _)

end N2V.Sched
