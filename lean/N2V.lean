import N2V.Model.Basic
import N2V.Model.Canon
