import Std.Data.HashMap
import N2V.Model.Basic
import N2V.Model.Canon
import N2V.Model.Depfile
import N2V.Model.Render
import N2V.Model.Proto
import N2V.Monitors
import N2V.Model.Db
import N2V.Model.Load
import N2V.Model.World
import N2V.Model.Settled
import N2V.Model.Task
open N2V

def showRes (r : Res Bytes) : String :=
  match r with
  | .ok b => "ok " ++ hexOfBytes b
  | .err m => "err " ++ m
  | .panic s => "panic " ++ s
  | .oob => "oob"
  | .overflow => "overflow"
  | .fuel => "fuel"

def b01 (b : Bool) : String := if b then "1" else "0"

def mons (l : List (String × Bool)) : String :=
  " ## " ++ " ".intercalate (l.map (fun p => p.1 ++ "=" ++ b01 p.2))

def showBad (r : Res Unit) : String :=
  match r with
  | .ok _ => "ok?"
  | .err m => "err " ++ m
  | .panic s => "panic " ++ s
  | .oob => "oob"
  | .overflow => "overflow"
  | .fuel => "fuel"

def showEntries (es : Depfile.Entries) : String :=
  "ok " ++ toString es.length ++ String.join (es.map (fun e =>
    " " ++ hexOfBytes e.1 ++ " " ++ toString e.2.length ++ String.join (e.2.map (fun d => " " ++ hexOfBytes d))))

def showDepfile (r : Scanner.PRes Depfile.Entries) : String :=
  match r with
  | .ok es _ => showEntries es
  | .perr m o => "err " ++ toString o ++ " " ++ hexOfBytes (bytesOfString m)
  | .bad r => showBad r

/-- Parse `n (t k d*)*` token lists (the harness's rendering of entries). -/
def parseEntryToks : Nat → List String → Option (Depfile.Entries × List String)
  | 0, toks => some ([], toks)
  | n + 1, t :: k :: rest => do
    let tb ← bytesOfHex t
    let kn ← k.toNat?
    if rest.length < kn then none else
    let ds ← (rest.take kn).mapM bytesOfHex
    let (es, r) ← parseEntryToks n (rest.drop kn)
    pure ((tb, ds) :: es, r)
  | _, _ => none

def parseEntries (toks : List String) : Option Depfile.Entries :=
  match toks with
  | n :: rest => do
    let k ← n.toNat?
    let (es, r) ← parseEntryToks k rest
    if r.isEmpty then some es else none
  | [] => none

def allDistinct : List Bytes → Bool
  | [] => true
  | x :: xs => !xs.contains x && allDistinct xs

/-- C15 monitor on the implementation's observation for a structured depfile: nothing lost,
    nothing invented, and (targets pairwise distinct) exactly the listed order. -/
def depfileMon (expected : Depfile.Entries) (impl : List String) : List (String × Bool) :=
  match impl with
  | "ok" :: rest =>
    match parseEntries rest with
    | some got =>
      let want := Depfile.flatten expected
      let have_ := Depfile.flatten got
      [("allListed", want.all (have_.contains ·) && have_.all (want.contains ·) && want.length == have_.length),
       ("inOrder", !allDistinct (expected.map (·.1)) || have_ == want)]
    | none => [("parseImpl", false)]
  | _ => [("structuredAccepted", false)]

/-- Split on newlines (the pieces between them; the last piece has no newline after it). -/
def splitNl (b : Bytes) : List Bytes :=
  let r := b.foldl (fun (acc : List Bytes × Bytes) x => if x == 10 then (acc.1 ++ [acc.2], []) else (acc.1, acc.2 ++ [x])) ([], [])
  r.1 ++ [r.2]

def parseFrameTasks : List String → Option (List Render.FrameTask)
  | [] => some []
  | m :: sc :: _raw :: lossy :: rest => do
    let msg ← bytesOfHex m
    let secs ← sc.toNat?
    let ll ← (if lossy == "~" then some none else (bytesOfHex lossy).map some)
    let ts ← parseFrameTasks rest
    pure (⟨msg, secs, ll⟩ :: ts)
  | _ => none

/-- C20 on a frame the real `print_progress` produced: one row per shown task (≤ width), one
    row per last output line: two blanks + a boundary-aligned prefix of the decoded line, ≤ width. -/
def frameMon (tasks : List Render.FrameTask) (cols : Nat) (impl : List String) : List (String × Bool) :=
  match impl with
  | ["ok", h] =>
    match bytesOfHex h with
    | some out =>
      let rows := splitNl out
      let shown := tasks.take 8
      let expected := 1 + (shown.map (fun t => if t.lastLine.isSome then 2 else 1)).sum + (if tasks.length > 8 then 1 else 0)
      let rec go (ts : List Render.FrameTask) (rs : List Bytes) : Bool × Bool :=
        match ts, rs with
        | [], _ => (true, true)
        | t :: ts', m :: rs' =>
          match t.lastLine with
          | none => let r := go ts' rs'; (decide (m.length ≤ cols) && r.1, r.2)
          | some l =>
            match rs' with
            | ll :: rs'' =>
              let p := ll.drop 2
              let r := go ts' rs''
              (decide (m.length ≤ cols) && decide (ll.length ≤ cols) && r.1,
               ll.take 2 == [32, 32] && p.isPrefixOf l && Render.isCharBoundary l p.length && r.2)
            | [] => (false, false)
        | _ :: _, [] => (false, false)
      let r := go shown (rows.drop 1)
      [("noPanic", true), ("frameShape", rows.length == expected + 1), ("rowsFit", r.1), ("lastLineCut", r.2)]
    | none => [("parseImpl", false)]
  | _ => [("noPanic", false)]

def parseChainF : Nat → List String → Option (List (List Bytes × Option Bytes))
  | _, [] => some []
  | 0, _ => none
  | fuel + 1, "S" :: n :: rest => do
    let k ← n.toNat?
    let outs ← (rest.take k).mapM bytesOfHex
    let rm ← match (rest.drop k).head? with
      | some "~" => some none
      | some h => (bytesOfHex h).map some
      | none => none
    let more ← parseChainF fuel (rest.drop (k + 1))
    pure ((outs, rm) :: more)
  | _, _ => none

def parseChain (l : List String) : Option (List (List Bytes × Option Bytes)) := parseChainF l.length l

def handleSched (case impl : List String) : String :=
  let parsed := (do
    let a ← Proto.argsD
    let g ← Proto.graphD
    pure (a, g)).run case
  match parsed with
  | some ((a, g), []) =>
    match (Proto.implD.run impl) with
    | some (obs, []) =>
      let segs := Proto.segments obs.trace
      let seg1 := segs.headD []
      let c1 := Proto.choicesOf a.adopt seg1
      let (s1, _, out1) := Run.build g a c1 ()
      -- a reload continues with a fresh Work on the (here: unchanged) manifest
      let (tr, out) := match out1 with
        | .reload n =>
          let seg2 := (segs.drop 1).headD []
          let c2 := Proto.choicesOf a.adopt seg2
          let (s2, _, out2) := Run.buildReloaded g a c2 () n
          (s1.trace.reverse ++ s2.trace.reverse, out2)
        | o => (s1.trace.reverse, o)
      let v := Mon.verdicts g a (obs.result.splitOn " ") obs.trace
      Proto.showOutcome out ++ " " ++ Proto.showTrace tr ++ mons v.toList
    | _ => "bad-impl"
  | _ => "bad-case"

namespace DbDrv
open Proto

structure G where
  names : Array Bytes
  builds : List (List Nat)
  prod : Std.HashMap Bytes Nat      -- output name -> first build listing it (an index of `builds`)

def mkProd (names : Array Bytes) (builds : List (List Nat)) : Std.HashMap Bytes Nat :=
  ((List.range builds.length).zip builds).foldl (fun m (p : Nat × List Nat) =>
    p.2.foldl (fun m i => let n := names.getD i []; if m.contains n then m else m.insert n p.1) m) {}

def gD : P G := do
  kw "names"; let ns ← counted bytes
  kw "builds"; let bs ← counted (counted nat)
  pure ⟨ns.toArray, bs, mkProd ns.toArray bs⟩

structure Wr where
  build : Nat
  hash : Nat
  deps : List Nat

def wrD : P Wr := do
  let b ← nat; let h ← nat; let ds ← counted nat
  pure ⟨b, h, ds⟩

def G.name (g : G) (i : Nat) : Bytes := g.names.getD i []
def G.outs (g : G) (b : Nat) : List Bytes := (g.builds.getD b []).map g.name
/-- The first build listing `n` among its outputs (a precomputed index of the case's graph). -/
def G.producer (g : G) (n : Bytes) : Option Nat := g.prod[n]?

/-- Apply a sequence of `write_build` calls; returns the records and the final id table. -/
def applyWrites (g : G) : List Bytes → List Wr → List Db.Rec × List Bytes
  | known, [] => ([], known)
  | known, w :: ws =>
    let (rs, k) := Db.writeBuild known (g.outs w.build) (w.deps.map g.name) w.hash
    let (rs', k') := applyWrites g k ws
    (rs ++ rs', k')

def showLoaded (g : G) (st : Db.LoadState) : String :=
  s!"L {g.builds.length}" ++ String.join ((List.range g.builds.length).map (fun b =>
    match Db.latest st b with
    | some l => s!" {l.hash} {l.deps.length}" ++ String.join (l.deps.map (fun d => " " ++ hexOfBytes d))
    | none => " - 0"))

/-- The records that lie wholly within the first `k` bytes of a complete log. -/
def survivors : List Db.Rec → Nat → Nat → List Db.Rec
  | [], _, _ => []
  | r :: rs, pos, k =>
    let e := pos + (Db.encode r).length
    if e ≤ k then r :: survivors rs e k else []

end DbDrv

def handleDbw (case impl : List String) : String :=
  match ((do let g ← DbDrv.gD; Proto.kw "writes"; let ws ← Proto.counted DbDrv.wrD; pure (g, ws)).run case) with
  | some ((g, ws), []) =>
    let (rs, _) := DbDrv.applyWrites g [] ws
    -- C08 on the bytes the REAL writer produced: they parse completely, and loading them gives every
    -- step the hash and dependency names of its last write that fits the record format
    let readsBack := match impl with
      | ["ok", h] =>
        match bytesOfHex h with
        | some bs =>
          match Db.parse bs with
          | .ok recs n =>
            n == bs.length &&
            (match Db.loadAll g.producer ⟨[], []⟩ recs with
             | .ok st =>
               (List.range g.builds.length).all (fun b =>
                 let want := (ws.filter (fun w => w.build == b && decide ((g.outs b).length < 0x8000) && decide (w.deps.length < 0x10000))).getLast?
                 match want, Db.latest st b with
                 | none, none => true
                 | some w, some l => l.hash == w.hash && l.deps == w.deps.map g.name
                 | _, _ => false)
             | _ => false)
          | .empty => ws.all (fun w => decide ((g.outs w.build).length ≥ 0x8000) || decide (w.deps.length ≥ 0x10000)) || ws.isEmpty
          | _ => false
        | none => false
      | _ => true
    "ok " ++ hexOfBytes (Db.encodeLog rs) ++ mons [("writtenReadsBack", readsBack)]
  | _ => "bad-case"

def handleDbr (case impl : List String) : String :=
  let p := (do
    let full ← Proto.bytes; let k ← Proto.nat
    let g ← DbDrv.gD; Proto.kw "writes"; let ws ← Proto.counted DbDrv.wrD
    pure (full, k, g, ws)).run case
  match p with
  | some ((full, k, g, ws), []) =>
    let bs := full.take k
    let run (recs : List Db.Rec) (validLen : Nat) (base : Bytes) : String × List Db.Rec × Bytes :=
      match Db.loadAll g.producer ⟨[], []⟩ recs with
      | .ok st =>
        let (newRecs, _) := DbDrv.applyWrites g st.names ws
        let fin := base ++ newRecs.flatMap Db.encode
        ("ok " ++ DbDrv.showLoaded g st ++ s!" {validLen} " ++ hexOfBytes fin, recs ++ newRecs, fin)
      | .panic m => ("panic " ++ hexOfBytes (bytesOfString m), [], [])
      | _ => ("bad", [], [])
    let (line, _, _) := match Db.parse bs with
      | .ok recs validLen => run recs validLen (bs.take validLen)
      | .empty => run [] 8 Db.signature
      | .badSignature => ("err " ++ hexOfBytes (bytesOfString "load .n2_db: invalid db signature"), [], [])
      | .badVersion _ => ("err version", [], [])
    -- specification path: the records of the COMPLETE log that fit in the first k bytes
    let spec : Option (String × List Db.Rec) := match Db.parse full with
      | .ok recsFull _ =>
        let sv := if k < 8 then [] else DbDrv.survivors recsFull 8 k
        match Db.loadAll g.producer ⟨[], []⟩ sv with
        | .ok st =>
          let (newRecs, _) := DbDrv.applyWrites g st.names ws
          some (DbDrv.showLoaded g st, sv ++ newRecs)
        | _ => none
      | _ => none
    let mon := match impl, spec with
      | "ok" :: rest, some (specLoaded, specRecs) =>
        let implLoaded := " ".intercalate (rest.take (rest.length - 2))
        let finOk := match rest.getLast? with
          | some h => match bytesOfHex h with
            | some fb => decide (Db.parse fb = .ok specRecs fb.length)
            | none => false
          | none => false
        -- C08: whatever the implementation attached to a step must come from a surviving record
        -- ALL of whose outputs that step produces now
        let svLoaded : List Db.Loaded := match Db.parse full with
          | .ok recsFull _ =>
            let sv := if k < 8 then [] else DbDrv.survivors recsFull 8 k
            (sv.foldl (fun (acc : List Bytes × List Db.Loaded) r => match r with
              | .path n => (acc.1 ++ [n], acc.2)
              | .build outs deps hash =>
                match Db.namesOf acc.1 outs, Db.namesOf acc.1 deps with
                | .ok os, .ok ds => (acc.1, acc.2 ++ [⟨os, ds, hash⟩])
                | _, _ => acc) ([], [])).2
          | _ => []
        let implBuilds : Option (List (Option Nat × List Bytes)) := (do
          Proto.kw "L"
          let bs ← Proto.counted (do
            let h ← Proto.optNat
            let ds ← Proto.counted Proto.bytes
            pure (h, ds))
          pure bs).run rest |>.map (fun (r : List (Option Nat × List Bytes) × List String) => r.1)
        let attributionOk := match implBuilds with
          | some bs => (List.range bs.length).all (fun b =>
              match bs.getD b (none, []) with
              | (none, ds) => ds.isEmpty
              | (some h, ds) => svLoaded.any (fun l => l.hash == h && l.deps == ds && !l.outs.isEmpty
                                  && l.outs.all (fun o => g.producer o == some b)))
          | none => false
        [("startsNormally", true), ("survivorsExact", implLoaded == specLoaded), ("laterLoadable", finOk),
         ("attributionOk", attributionOk)]
      | _, _ => [("startsNormally", false)]
    line ++ mons mon
  | _ => "bad-case"

namespace LoadDrv
open Proto Load

def optS : Option Bytes → String
  | none => "N"
  | some b => "S" ++ hexOfBytes b

def showLoader (l : Loader) : String :=
  let g := l.graph
  let files := String.join (g.files.map (fun f =>
    s!" {hexOfBytes f.name} " ++ (match f.input with | some b => toString b | none => "-") ++ s!" {f.dependents.length}" ++
      String.join (f.dependents.map (fun d => s!" {d}"))))
  let builds := String.join (g.builds.map (fun b =>
    s!" {hexOfBytes b.loc.file} L{b.loc.line} {optS b.cmdline} {optS b.desc} {optS b.depfile} {b01 b.showIncludes}" ++
    (match b.rspfile with | none => " N N" | some (p, c) => s!" S{hexOfBytes p} S{hexOfBytes c}") ++
    s!" {optS b.pool} {b01 b.hideSuccess} {b01 b.hideProgress}" ++
    s!" {b.ins.length} {b.explicit} {b.implicit} {b.orderOnly}" ++ String.join (b.ins.map (fun i => s!" {i}")) ++
    s!" {b.outs.length} {b.explicitOuts}" ++ String.join (b.outs.map (fun i => s!" {i}"))))
  s!"ok F {g.files.length}" ++ files ++ s!" B {g.builds.length}" ++ builds ++
    s!" D {l.defaults.length}" ++ String.join (l.defaults.map (fun d => s!" {d}")) ++
    s!" P {l.pools.length}" ++ String.join (l.pools.map (fun p => s!" {hexOfBytes p.1} {p.2}")) ++
    s!" W {l.warnings}"

def normMsg (m : String) : String :=
  if m.startsWith "unexpected variable" then "unexpected variable" else m

def showLoc (l : Loc) : String := stringOfBytes l.file ++ ":" ++ toString l.line

/-- A name as it can be compared through Rust's `{:?}` rendering of a lossily decoded string:
    printable ASCII other than `"` and `\\` stays, every maximal run of other bytes (escapes,
    non-ASCII characters, U+FFFD replacements) becomes one `?`. -/
def plainName : Bytes → Bool → Bytes
  | [], _ => []
  | c :: r, inRun =>
    if 32 ≤ c.toNat && c.toNat ≤ 126 && c != 34 && c != 92 then c :: plainName r false
    else if inRun then plainName r true else 63 :: plainName r true

def showErr : LoadErr → String
  | .parse file msg _ (.ok v) =>
    s!"perr {hexOfBytes file} {v.line} {v.col} {hexOfBytes v.excerpt} {hexOfBytes (bytesOfString (normMsg msg))}"
  | .parse _ _ _ (.panic m) => "panic " ++ hexOfBytes (bytesOfString m)
  | .parse _ _ _ _ => "bad-view"
  | .dupOutput name here there =>
    -- the message carries the path and file names as raw bytes (no Latin-1 / UTF-8 round trip)
    let loc (l : Loc) : Bytes := l.file ++ bytesOfString (":" ++ toString l.line)
    "err " ++ hexOfBytes (bytesOfString "dupout " ++ plainName name false ++ [32] ++ loc here ++ [32] ++ loc there)
  | .other k =>
    if k.startsWith "panic: " then "panic " ++ hexOfBytes (bytesOfString (k.drop 7).toString)
    else "err " ++ hexOfBytes (bytesOfString k)

def filesD : P (Bytes × List (Bytes × Bytes)) := do
  let main ← bytes
  let fs ← counted (do let n ← bytes; let c ← bytes; pure (n, c))
  pure (main, fs)

def runLoadWith (ext : Bool) (main : Bytes) (files : List (Bytes × Bytes)) : String :=
  let fs : Load.Fs := fun n => (files.find? (fun p => p.1 == n)).map (·.2)
  match Load.loadWith ext fs main with
  | .ok l => showLoader l
  | .error e => showErr e

def runLoad (main : Bytes) (files : List (Bytes × Bytes)) : String := runLoadWith false main files

/-- Opening the log is outside `Load.loadWith`; it can fail for reasons of the operating system
    (a `builddir` whose name is too long, not a directory, ...).  Such a failure is accepted - the
    model's answer is replaced by the observation - only when the manifest loads in the model AND
    sets a `builddir` (without one the log is `.n2_db` in the project directory). -/
def osDbToken : String := "err " ++ hexOfBytes (bytesOfString "dbopen-os-error")

def runLoadObs (main : Bytes) (files : List (Bytes × Bytes)) (implLine : String) : String :=
  let fs : Load.Fs := fun n => (files.find? (fun p => p.1 == n)).map (·.2)
  match Load.loadWith false fs main with
  | .ok l => if implLine == osDbToken && l.builddir.isSome then osDbToken else showLoader l
  | .error e => showErr e

/-- Drop the digits that follow a ':' (line numbers inside messages). -/
def maskColonDigitsAux : List Char → Bool → List Char
  | [], _ => []
  | c :: r, after =>
    if c == ':' then ':' :: maskColonDigitsAux r true
    else if after && c.isDigit then maskColonDigitsAux r true
    else c :: maskColonDigitsAux r false

def maskColonDigits (l : List Char) : List Char := maskColonDigitsAux l false

def maskErrLine (toks : List String) : List String :=
  match toks with
  | ["err", h] => match bytesOfHex h with
    | some b => ["err", String.ofList (maskColonDigits (stringOfBytes b).toList)]
    | none => toks
  | _ => toks

/-- C14 on an observed dump: no file is among the outputs of two different builds, and every
    output's recorded producer is that build.  (Re-parses the harness's `ok F .. B ..` dump.) -/
def singleProducerOk (toks : List String) : Bool :=
  let p : P Bool := do
    kw "ok"; kw "F"
    let files ← counted (do let _ ← tok; let inp ← optNat; let _ ← counted nat; pure inp)
    kw "B"
    let builds ← counted (do
      let _ ← tok; let _ ← tok; let _ ← tok; let _ ← tok; let _ ← tok; let _ ← tok
      let _ ← tok; let _ ← tok; let _ ← tok; let _ ← tok; let _ ← tok
      let nins ← nat; let _ ← nat; let _ ← nat; let _ ← nat
      let _ ← many nat nins
      let nouts ← nat; let _ ← nat
      let outs ← many nat nouts
      pure outs)
    let fa := files.toArray
    let ok := (List.range builds.length).all (fun b =>
      (builds.getD b []).all (fun o => fa.getD o none == some b))
    pure ok
  match p.run toks with
  | some (b, _) => b
  | none => true

/-- No two files of the loaded graph are spellings of the same location (the loader
    canonicalises every path before interning it). -/
def oneNodePerLocation (toks : List String) : Bool :=
  let p : P Bool := do
    kw "ok"; kw "F"
    let names ← counted (do let n ← bytes; let _ ← optNat; let _ ← counted nat; pure n)
    let canon := names.map (fun n => match Canon.canon n with | .ok c => c | _ => n)
    pure (canon.eraseDups.length == canon.length)
  match p.run toks with
  | some (b, _) => b
  | none => true

/-- Mask the `L<line>` tokens: line numbers legitimately differ between spellings. -/
def maskLines (toks : List String) : List String :=
  toks.map (fun t => if t.startsWith "L" && (t.drop 1).toString.toNat?.isSome then "L" else t)

end LoadDrv

namespace HistDrv
open Proto World Work

def opD : P World.Op := do
  let t ← tok
  match t with
  | "W" => do let n ← bytes; let m ← nat; let c ← bytes; pure (.write n m c)
  | "D" => do let n ← bytes; pure (.delete n)
  | "I" => do
    let par ← nat; let k ← optNat; let ad ← nat; let ts ← counted bytes; let mf ← bytes
    pure (.invoke { par := par, k := k, adopt := ad == 1, targets := ts, manifestName := mf })
  | _ => failure

structure InvObs where
  result : String
  trace : List Sched.Ev
  fs : List (Bytes × Nat × Bytes)

def invObsD : P InvObs := do
  kw "INV"
  let r ← tok
  let res ← match r with
    | "ok" => do let n ← tok; pure ("ok " ++ n)
    | "fail" => pure "fail"
    | "err" => do let m ← tok; pure ("err " ++ m)
    | "panic" => do let m ← tok; pure ("panic " ++ m)
    | _ => failure
  kw "T"; let evs ← counted evD
  kw "FS"; let fs ← counted (do let n ← bytes; let m ← nat; let c ← bytes; pure (n, m, c))
  pure ⟨res, evs, fs⟩

def implD : P (List InvObs × List Bytes) := do
  let first ← invObsD
  let rec more (fuel : Nat) (acc : List InvObs) : P (List InvObs) :=
    match fuel with
    | 0 => pure acc
    | fuel + 1 => do
      let t ← peekTok
      if t == some ";" then do let _ ← tok; let o ← invObsD; more fuel (acc ++ [o]) else pure acc
  let invs ← more 1000 [first]
  kw "%%"
  let rec logs (fuel : Nat) (acc : List Bytes) : P (List Bytes) :=
    match fuel with
    | 0 => pure acc
    | fuel + 1 => do
      let t ← peekTok
      if t == some "LOG" then do let _ ← tok; let b ← bytes; logs fuel (acc ++ [b]) else pure acc
  let ls ← logs 1000 []
  pure (invs, ls)

def showResult : InvResult → String
  | .done n => s!"ok {n}"
  | .failed => "fail"
  | .err k => "err " ++ hexOfBytes (bytesOfString k)
  | .panic m => "panic " ++ hexOfBytes (bytesOfString m)
  | .other s => "other-" ++ s

def showFs (fs : FsM) : String :=
  let l := World.sortFs fs
  s!"FS {l.length}" ++ String.join (l.map (fun p => s!" {hexOfBytes p.1} {p.2.mtime} {hexOfBytes p.2.content}"))

def obsChoices (seg : List Sched.Ev) : List (List Nat) × List (Nat × Sched.Term) :=
  (permsOf seg, seg.filterMap (fun e => match e with | .finish id t => some (id, t) | _ => none))

structure Acc where
  w : World := World.emptyWorld
  out : List String := []
  obs : List InvObs := []
  logs : List Bytes := []
  prevInv : Option (InvArgs × Bool) := none     -- previous op was an invocation (args, impl said ok)
  cleanEq : Bool := true
  noopAfterSuccess : Bool := true
  settledAfterSuccess : Bool := true
  checkErrorsAsPredicted : Bool := true
  unknownRejected : Bool := true
  nSettled : Nat := 0
  logAgrees : Bool := true
  regenFirst : Bool := true
  reloadIffRan : Bool := true
  restatRunsNothing : Bool := true
  wantedFromNewText : Bool := true
  runSetAsPredicted : Bool := true
  adoptSeen : Bool := false
  nInv : Nat := 0

def stepOp (acc : Acc) (op : World.Op) : Acc :=
  match op with
  | .invoke a =>
    match acc.obs with
    | [] => { acc with out := acc.out ++ ["INV missing-observation"] }
    | o :: restObs =>
      let segs := segments o.trace
      let c1 := obsChoices (segs.headD [])
      let c2 := obsChoices ((segs.drop 1).headD [])
      let before := acc.w
      let (w', res, tr) := Work.invoke acc.w a c1 c2
      let line := "INV " ++ showResult res ++ " " ++ showTrace tr ++ " " ++ showFs w'.fs
      let implOk := o.result.startsWith "ok"
      -- C02: contents of the closure's outputs equal those of a from-scratch build
      let cleanOk :=
        if !implOk || a.adopt || acc.adoptSeen || World.usesRw before a || World.usesRw w' a then true else
        match World.cleanOutputs { before with fs := (o.fs.map (fun t => (t.1, (⟨t.2.1, t.2.2⟩ : FileInfo)))) } a with
        | none => true
        | some want => want.all (fun p =>
            ((o.fs.find? (fun t => t.1 == p.1)).map (fun t => t.2.2)) == some p.2)
      -- C03: straight after a successful build of the same targets nothing runs
      let noop := match acc.prevInv with
        | some (pa, true) =>
          if pa.targets == a.targets && !pa.adopt && World.allDeclaredPresent before a then
            o.result == "ok 0" && !o.trace.any (fun e => match e with | .start _ => true | _ => false)
          else true
        | _ => true
      -- C03/C02: the state a successful build leaves is "settled" (the hypothesis of
      -- C03.repeated_build_does_nothing): the implementation's tree with the log's records
      let wImpl : World := { fs := o.fs.map (fun t => (t.1, (⟨t.2.1, t.2.2⟩ : FileInfo))), clock := w'.clock, log := w'.log }
      let settledApplies := o.result.startsWith "ok" && !a.adopt && World.allDeclaredPresent wImpl a
      let settledOk := !settledApplies || World.settledC wImpl a
      -- C09 (a vanished discovered dependency never FAILS the build) / C02: the dirtiness check
      -- reports an error ("input .. missing", "used generated file ..") only where the model of the
      -- manifest rule does: a declared dirtying source that is missing, or an unordered generated file
      let checkErr := showResult (.err "check_build_dirty")
      let checkErrOk := o.result != checkErr || showResult res == checkErr
      -- C18: a command-line name the manifest does not declare (known, say, only from the log of an
      -- earlier manifest) is rejected: the invocation does not succeed (judged when no reload happened)
      let unknownOk :=
        if a.adopt || segs.length ≥ 2 then true else
        match Load.load (fun n => (before.fs.get n).map (·.content)) a.manifestName with
        | .ok l =>
          let names := l.graph.files.map (·.name)
          let unknown := a.targets.any (fun t => match Canon.canon t with
            | .ok c => !names.contains c
            | _ => true)
          !unknown || !o.result.startsWith "ok"
        | .error _ => true
      -- `-t restat` starts no command
      let restat := !a.adopt || !o.trace.any (fun e => match e with | .start _ => true | _ => false)
      -- C09/C08/C02: the log the implementation left is the abstract one
      let logOk := match acc.logs with
        | l :: _ => World.logAgrees l w'.log
        | [] => false
      -- C17
      let seg1Starts := (segs.headD []).filterMap (fun e => match e with | .start b => some b | _ => none)
      let seg1Success := (segs.headD []).any (fun e => match e with | .finish _ .success => true | _ => false)
      let cone := match loadEnv before a.manifestName with
        | .ok (_, e0) =>
          let sg := schedGraph e0.g
          some (Mon.closure (Mon.allProducers sg) (sg.nBuilds * sg.nBuilds + sg.nBuilds + 1) ((sg.producer 0).toList) [])
        | .error _ => none
      let reloaded := segs.length ≥ 2
      let regen := match cone with
        | some cone => !reloaded || seg1Starts.all cone.contains
        | none => true
      let seg1Bad := (segs.headD []).any (fun e => match e with
        | .finish _ .failure => true | .finish _ .interrupted => true | _ => false)
      -- a command of the manifest's own cone succeeded in the first Work (phase 1)
      let coneSuccess := match cone with
        | some cone => (segs.headD []).any (fun e => match e with | .finish b .success => cone.contains b | _ => false)
        | none => false
      -- reload only after a manifest phase that ran something and did not fail; and then always
      -- (an error inside the phase leaves it open)
      let reloadOk := (!reloaded || (seg1Success && !seg1Bad)) &&
                      (!(coneSuccess && !seg1Bad && !o.result.startsWith "err") || reloaded)
      -- C17/C18: after a reload the wanted set is the closure of what the NEW text asks for
      let newText :=
        if !reloaded || !implOk then true else
        match loadEnv w' a.manifestName with
        | .ok (l2, e2) =>
          let sg2 := schedGraph e2.g
          let ra := argsOf l2 a
          match Mon.wantedFiles sg2 ra with
          | some files =>
            let cl := Mon.wantedBuilds sg2 ra files false
            let touched := ((segs.drop 1).headD []).filterMap (fun e => match e with
              | .set b .unknown _ _ _ => some b | _ => none)
            touched.all cl.contains && cl.all touched.contains
          | none => true
        | .error _ => true
      -- C03: the commands started are exactly those the model of the manifest rule predicts
      let startsOf (t : List Sched.Ev) := t.filterMap (fun e => match e with | .start b => some b | _ => none)
      let runSet := (startsOf o.trace).all (startsOf tr).contains && (startsOf tr).all (startsOf o.trace).contains
                    && (startsOf o.trace).length == (startsOf tr).length
      { acc with w := w', out := acc.out ++ [line], obs := restObs, wantedFromNewText := acc.wantedFromNewText && newText,
                 runSetAsPredicted := acc.runSetAsPredicted && runSet, logs := acc.logs.drop 1,
                 prevInv := some (a, implOk), nInv := acc.nInv + 1, adoptSeen := acc.adoptSeen || a.adopt,
                 cleanEq := acc.cleanEq && cleanOk, noopAfterSuccess := acc.noopAfterSuccess && noop,
                 settledAfterSuccess := acc.settledAfterSuccess && settledOk,
                 checkErrorsAsPredicted := acc.checkErrorsAsPredicted && checkErrOk,
                 unknownRejected := acc.unknownRejected && unknownOk,
                 nSettled := acc.nSettled + (if settledApplies && settledOk then 1 else 0),
                 logAgrees := acc.logAgrees && logOk, regenFirst := acc.regenFirst && regen,
                 reloadIffRan := acc.reloadIffRan && reloadOk,
                 restatRunsNothing := acc.restatRunsNothing && restat }
  | op => { acc with w := World.applyEdit acc.w op, prevInv := none }

end HistDrv

def handleHist (case impl : List String) : String :=
  match (Proto.counted HistDrv.opD).run case, HistDrv.implD.run impl with
  | some (ops, []), some ((invs, logs), []) =>
    let acc := ops.foldl HistDrv.stepOp { obs := invs, logs := logs }
    " ; ".intercalate acc.out ++ mons [("cleanEq", acc.cleanEq), ("noopAfterSuccess", acc.noopAfterSuccess),
      ("logAgrees", acc.logAgrees), ("regenFirst", acc.regenFirst), ("reloadIffRan", acc.reloadIffRan),
      ("restatRunsNothing", acc.restatRunsNothing), ("wantedFromNewText", acc.wantedFromNewText),
      ("runSetAsPredicted", acc.runSetAsPredicted), ("settledAfterSuccess", acc.settledAfterSuccess),
      ("checkErrorsAsPredicted", acc.checkErrorsAsPredicted), ("unknownRejected", acc.unknownRejected)]
      ++ s!" @settledStates={acc.nSettled} @invocations={acc.nInv}"
  | _, _ => "bad-case"

/-- `case` tokens and the implementation's observed tokens -> model line ++ monitor verdicts. -/
def handle (case impl : List String) : String :=
  match case with
  | ["canon", h] =>
    match bytesOfHex h with
    | none => "bad-hex"
    | some s =>
      let r := Canon.canon s
      let line := match r with
        | .ok t => "ok " ++ hexOfBytes t ++ " " ++ (match Canon.canon t with | .ok tt => hexOfBytes tt | _ => "!")
        | r => showRes r
      -- the component-level specification must agree with the machine model
      let specOk := match r with
        | .ok t => Canon.render (Canon.denote s) == t
        | _ => true
      let m := match impl with
        | ["ok", th, tth] =>
          match bytesOfHex th, bytesOfHex tth with
          | some t, some tt =>
            let m := Canon.monitor s t tt
            [("lenOk", m.lenOk), ("idem", m.idem), ("normal", m.normal), ("sameLoc", m.sameLoc)]
          | _, _ => [("parse", false)]
        | "panic" :: _ =>
          -- only the empty string (rejected upstream by every caller) may be refused
          [("noPanic", decide (s = []))]
        | _ => [("noAbort", false)]
      line ++ mons (("specAgrees", specOk) :: m)
  | ["depfile", h] =>
    match bytesOfHex h with
    | none => "bad-hex"
    | some t =>
      let noCrash := match impl with | "ok" :: _ => true | "err" :: _ => true | _ => false
      showDepfile (Depfile.parse t) ++ mons [("okOrDiagnostic", noCrash)]
  | "depfileS" :: h :: rest =>
    match bytesOfHex h, parseEntries rest with
    | some t, some expected =>
      showDepfile (Depfile.parse t) ++ mons (depfileMon expected impl)
    | _, _ => "bad-case"
  | ["taskmsg", h, secs, cols] =>
    match bytesOfHex h, secs.toNat?, cols.toNat? with
    | some m, some sc, some c =>
      let mon := match impl with
        | ["ok", th] => match bytesOfHex th with
          | some t => [("fits", decide (t.length ≤ c)), ("noPanic", true)]
          | none => [("parseImpl", false)]
        | _ => [("noPanic", false)]
      showRes (Render.taskMessage m sc c) ++ mons mon
    | _, _, _ => "bad-case"
  | ["truncate", h, mx] =>
    match bytesOfHex h, mx.toNat? with
    | some m, some k =>
      let mon := match impl with
        | ["ok", th] => match bytesOfHex th with
          | some t => [("fits", decide (t.length ≤ k)), ("prefix", t.isPrefixOf m),
                       ("boundary", Render.isCharBoundary m t.length)]
          | none => [("parseImpl", false)]
        | _ => [("noPanic", false)]
      "ok " ++ hexOfBytes (Render.truncate m k) ++ mons mon
    | _, _ => "bad-case"
  | "frame" :: colsS :: w :: r :: q :: ru :: d :: f :: nS :: rest =>
    match parseFrameTasks rest, [w, r, q, ru, d, f, nS].mapM String.toNat? with
    | some tasks, some [w, r, q, ru, d, f, n] =>
      if tasks.length != n then "bad-case" else
      let cols : Option Nat := if colsS == "-" then none else colsS.toNat?
      showRes (Render.frame ⟨w, r, q, ru, d, f⟩ tasks cols) ++ mons (frameMon tasks (cols.getD 80) impl)
    | _, _ => "bad-case"
  | ["bar", w, r, q, ru, d, f, n] =>
    match [w, r, q, ru, d, f, n].mapM String.toNat? with
    | some [w, r, q, ru, d, f, n] =>
      let mon := match impl with
        | ["ok", th] => match bytesOfHex th with
          | some t => [("width", decide (t.length = n))]
          | none => [("parseImpl", false)]
        | _ => [("noPanic", false)]
      "ok " ++ hexOfBytes (Render.progressBar ⟨w, r, q, ru, d, f⟩ n) ++ mons mon
    | _ => "bad-case"
  | ["showinc", h] =>
    match bytesOfHex h with
    | some b =>
      let (incs, out) := Task.extractShowIncludes b
      -- C16/C09: no include note survives in what is shown; every other line does
      let shown := match impl.getLast? with | some x => (bytesOfHex x).getD [] | none => []
      let noNoteShown := (Task.splitNL shown []).all (fun l => !(Task.notePrefix.isPrefixOf l))
      -- C09: every file a note names is reported as a dependency (whatever bytes its name has)
      let reported : List Bytes := ((impl.drop 2).dropLast).filterMap bytesOfHex
      let allReported := impl.head? == some "ok" && reported == incs
      s!"ok {incs.length}" ++ String.join (incs.map (fun i => " " ++ hexOfBytes i)) ++ " " ++ hexOfBytes out
        ++ mons [("noNoteShown", noNoteShown), ("notesAllReported", allReported)]
    | none => "bad-hex"
  | ["lastline", h] =>
    match bytesOfHex h with
    | some b => "ok " ++ hexOfBytes (Task.findLastLine b)
    | none => "bad-hex"
  | ["status", "exit", c] =>
    let code := c.toNat?.getD 0
    let t := Task.decodeStatus (Task.exitStatus code)
    (match t with | .success => "success -" | .interrupted => "interrupted -" | .failure => "failure -")
      ++ mons [("zeroIsSuccess", (impl.head? == some "success") == (code % 256 == 0))]
  | ["status", "sig", sg] =>
    let sn := sg.toNat?.getD 0
    let t := Task.decodeStatus (Task.signalStatus sn false)
    (match t with
      | .interrupted => "interrupted " ++ hexOfBytes (bytesOfString "interrupted")
      | .failure => "failure " ++ hexOfBytes (bytesOfString s!"signal {sn}")
      | .success => "success -")
      ++ mons [("signalIsNotSuccess", impl.head? != some "success"),
               ("sigintInterrupts", (impl.head? == some "interrupted") == (sn == Task.SIGINT))]
  | ["output", sz, mode] =>
    let n := sz.toNat?.getD 0
    let want := (if mode == "both" then s!"success {2 * n} {n} {n}" else s!"success {n} {n} 0")
    want ++ mons [("outputIntact", " ".intercalate impl == want)]
  | ["shcmd", _] => "same=1 okmatch=1" ++ mons [("runsThroughSh", impl == ["same=1", "okmatch=1"])]
  | ["env", "stdin"] => hexOfBytes (bytesOfString "/dev/null") ++ mons [("stdinDevNull", impl == [hexOfBytes (bytesOfString "/dev/null")])]
  | ["env", "cwd"] => "same"
  | ["env", "fds"] => "leaked 0" ++ mons [("noFdLeak", impl == ["leaked", "0"])]
  | ["n2bin", "printed", _, _] => "code=0 once=1 contiguous=1" ++ mons [("printedOnceContiguous", impl == ["code=0", "once=1", "contiguous=1"])]
  | ["n2bin", "rspfile"] =>
    let want := "code=0 content=" ++ hexOfBytes (bytesOfString "-a  in1 in2 \"q\" $x")
    want ++ mons [("rspfileExact", " ".intercalate impl == want)]
  | ["n2bin", "keepgoing", k, n, g, j] =>
    -- C05 through parse_args: `n` independent failing steps, `g` independent good ones, budget -k `k`
    -- (1 when not given), -j `j`.  Once the budget is reached no further command is started: at most
    -- the j - 1 commands already running besides the one whose failure exhausted it; while it is not
    -- reached everything else is still brought up to date.
    let fld := fun (name : String) => (impl.findSome? (fun t => if t.startsWith (name ++ "=") then (t.drop (name.length + 1)).toString.toNat? else none))
    -- without -k the property names no budget (the usage text says "default: 1", parse_args leaves
    -- failures_left = None, i.e. no limit): any number of the failing commands may start then
    let nn0 := n.toNat?.getD 0
    let given := k != "-"
    let kk := if given then k.toNat?.getD 1 else nn0 + 1
    let nn := n.toNat?.getD 0; let gg := g.toNat?.getD 0; let jj := j.toNat?.getD 1
    let started := fld "started"; let good := fld "good"; let code := fld "code"
    let lo := if given then min kk nn else 0
    let hi := min nn (kk + jj - 1)
    " ".intercalate impl ++ mons [
      ("cliBudgetRespected", match started with | some s => s ≤ hi | none => false),
      ("cliBudgetUsed", match started with | some s => lo ≤ s | none => false),
      ("cliRestStillBuilt", !given || kk ≤ nn || good == some gg),
      ("cliExitReflectsFailure", code == some (if nn == 0 then 0 else 1))]
  | ["n2bin", "summary", n, m, f] =>
    -- C19 through run_impl: `ran N tasks` counts the commands that completed successfully, `no work
    -- to do` is printed exactly when that number is zero, and neither after a failure (exit status 1)
    let nn := n.toNat?.getD 0; let mm := m.toNat?.getD 0; let ff := f.toNat?.getD 0
    let line := fun (k : Nat) => hexOfBytes (bytesOfString (if k == 0 then "n2: no work to do" else s!"n2: ran {k} task{if k == 1 then "" else "s"}, now up to date"))
    let want := s!"codes=0,{if ff == 0 then 0 else 1} first={line nn} second={if ff == 0 then line mm else "-"} copied={nn}"
    want ++ mons [("cliSummaryExact", " ".intercalate impl == want)]
  | ["n2bin", "where", c, f, _, targets] =>
    -- C18 through parse_args: -C selects the directory, -f the manifest in it, `builddir` (set by
    -- alt.ninja only) the place of the log; the targets named (else `default a`) are built there by
    -- that manifest's commands, and one unknown name means an error and nothing built
    let dir := if c == "1" then "d/" else ""
    let marker := (if c == "1" then "d" else "top") ++ "-" ++ (if f == "1" then "alt" else "build")
    let ts := if targets == "-" then ["a"] else (targets.splitOn ",").map (fun t => if t == "./b" then "b" else t)
    let bad := ts.any (fun t => t != "a" && t != "b")
    let built := if bad then [] else (["a", "b"].filter (fun t => ts.contains t)).map (fun t => dir ++ t)
    let j := fun (l : List String) => if l.isEmpty then "-" else ",".intercalate l
    let want := s!"code={if bad then 1 else 0} built={j built} marker={if bad then "-" else marker} db={dir}{if f == "1" then "bd/" else ""}.n2_db"
    want ++ mons [("cliSelectsOnlyPlace", " ".intercalate impl == want)]
  | ["n2bin", "jobs", j, n, pool] =>
    -- C04 through parse_args: never more than -j commands at once, nor more than the pool's depth
    let fld := fun (name : String) => (impl.findSome? (fun t => if t.startsWith (name ++ "=") then (t.drop (name.length + 1)).toString.toNat? else none))
    let jj := j.toNat?.getD 1; let nn := n.toNat?.getD 0
    let bound := if pool == "console" then 1 else match pool.toNat? with | some 0 => jj | some d => min d jj | none => jj
    " ".intercalate impl ++ mons [
      ("cliJobsBounded", match fld "peak" with | some p => 1 ≤ p && p ≤ bound | none => false),
      ("cliAllRan", fld "ran" == some nn && fld "code" == some 0)]
  | ["n2bin", "cli", _] =>
    -- any command line: the outcome is n2's to choose (help text, a diagnostic, a build), but it is an
    -- exit status of 0 or 1 and never a panic
    let okCode := impl.head? == some "code=0" || impl.head? == some "code=1"
    " ".intercalate impl ++ mons [("binNoPanic", impl.getLast? == some "panic=0" && okCode)]
  | ["n2bin", "diag", tag, _, _, _] =>
    -- what the binary must do with a string it cannot print as it stands: a diagnostic and exit
    -- status 1 where the manifest / command line is in error, the ordinary outcome otherwise;
    -- never a panic (exit status 101, a signal, or "panicked" on the standard error)
    let want :=
      if tag == "dupwithin" || tag == "depfile" then "code=0 error=0 panic=0"
      else if tag == "desc" || tag == "cmd" then "code=1 error=0 panic=0"
      else "code=1 error=1 panic=0"
    want ++ mons [("binNoPanic", impl.getLast? == some "panic=0" && impl.head? != some "code=101" && impl.head? != some "code=-1"),
                  ("binDiagnostic", " ".intercalate impl == want)]
  | ["n2bin", "exit", "ok"] => "code=0"
  | ["n2bin", "exit", _] => "code=1"
  | ["n2bin", "rsprewrite", _, h] =>
    let want := "codes=[0,0] content=" ++ h ++ " rsp=" ++ h
    want ++ mons [("rspfileExact", " ".intercalate impl == want)]
  | ["n2bin", "fds"] => "code=0 leaked=0" ++ mons [("noFdLeak", impl == ["code=0", "leaked=0"])]
  | ["n2bin", "tail", t, h, f] =>
    -- every byte of the command's output is shown, whatever its last line looks like; the exit
    -- status follows the command's
    let want := s!"code={if f == "1" then 1 else 0} xs={t} lines={h}"
    want ++ mons [("outputIntact", " ".intercalate impl == want)]
  | "n2bin" :: "outchain" :: toks =>
    match parseChain toks with
    | some steps =>
      let sets := Task.chainDirs steps []
      let showSet (l : List Bytes) := ",".intercalate ((l.map hexOfBytes).mergeSort (fun a b => decide (a ≤ b)))
      let want := "code=0 dirs=" ++ ";".intercalate (sets.map showSet)
      -- property: the parent directory of every output of every step exists when its command starts
      let have_ : List (List String) := match impl with
        | [_, d] => ((d.drop 5).toString.splitOn ";").map (fun x => x.splitOn ",")
        | _ => []
      let ok := have_.length == steps.length && (List.zip steps have_).all (fun p =>
        p.1.1.all (fun o => (Task.parentOf o).isEmpty || p.2.contains (hexOfBytes (Task.parentOf o))))
      want ++ mons [("outputDirsExist", ok && impl.head? == some "code=0")]
    | none => "bad-case"
  | "n2bin" :: "outdirs" :: outs =>
    let os := outs.filterMap bytesOfHex
    let dirs := ((Task.dirsBeforeCommand os).map hexOfBytes).eraseDups
    let want := "code=0 dirs=" ++ ",".intercalate (dirs.mergeSort (fun a b => decide (a ≤ b)))
    -- property: the parent directory of every output exists when the command starts
    let have_ := match impl with
      | [_, d] => ((d.drop 5).toString.splitOn ",")
      | _ => []
    let parentsExist := os.all (fun o => (Task.parentOf o).isEmpty || have_.contains (hexOfBytes (Task.parentOf o)))
    want ++ mons [("outputDirsExist", parentsExist && impl.head? == some "code=0")]
  | "anomalies" :: _ =>
    "none" ++ mons [("totalIsSum", !impl.any (fun t => t.startsWith "X-total")),
                    ("notesHidden", !impl.any (fun t => t.startsWith "X-note"))]
  | "sched" :: rest => handleSched rest impl
  | "hist" :: rest => handleHist rest impl
  | "load" :: rest =>
    match (LoadDrv.filesD.run rest) with
    | some ((main, files), []) =>
      let diag := match impl with
        | "ok" :: _ => true | "perr" :: _ => true | "err" :: _ => true | _ => false
      let isOs := " ".intercalate impl == LoadDrv.osDbToken
      LoadDrv.runLoadObs main files (" ".intercalate impl) ++ mons [("loadedOrDiagnostic", diag), ("singleProducer", LoadDrv.singleProducerOk impl), ("oneNodePerLocation", LoadDrv.oneNodePerLocation impl),
        ("includeExtendsScope", isOs || LoadDrv.runLoadWith true main files == " ".intercalate impl)]
    | _ => "bad-case"
  | "loadpair" :: rest =>
    match (do let a ← LoadDrv.filesD; Proto.kw "|"; let b ← LoadDrv.filesD; pure (a, b)).run rest with
    | some (((m1, f1), (m2, f2)), []) =>
      -- monitors on the implementation's two observations
      let implParts := (" ".intercalate impl).splitOn " || "
      let r1 := LoadDrv.runLoadObs m1 f1 ((implParts.head?.getD "").trimAscii.toString)
      let r2 := LoadDrv.runLoadObs m2 f2 ((implParts.getLast?.getD "").trimAscii.toString)
      let spellingIndep := match implParts with
        | [a, b] =>
          let ta := (a.splitOn " ").filter (· ≠ "")
          let tb := (b.splitOn " ").filter (· ≠ "")
          -- compare graphs; for parse errors only the message kind (offsets/excerpts differ)
          if ta.head? == some "perr" && tb.head? == some "perr" then ta.getLast? == tb.getLast?
          else LoadDrv.maskErrLine (LoadDrv.maskLines ta) == LoadDrv.maskErrLine (LoadDrv.maskLines tb)
        | _ => false
      let diag := implParts.all (fun a => a.startsWith "ok" || a.startsWith "perr" || a.startsWith "err")
      let inclOk := match implParts with
        | [a, _] => a.trimAscii.toString == LoadDrv.osDbToken || LoadDrv.runLoadWith true m1 f1 == a.trimAscii.toString
        | _ => false
      let sp := implParts.all (fun a => LoadDrv.singleProducerOk ((a.splitOn " ").filter (· ≠ "")))
      let onl := implParts.all (fun a => LoadDrv.oneNodePerLocation ((a.splitOn " ").filter (· ≠ "")))
      r1 ++ " || " ++ r2 ++ mons [("spellingIndependent", spellingIndep), ("loadedOrDiagnostic", diag), ("singleProducer", sp),
        ("oneNodePerLocation", onl), ("includeExtendsScope", inclOk)]
    | _ => "bad-case"
  | "dbw" :: rest => handleDbw rest impl
  | "dbr" :: rest => handleDbr rest impl
  | _ => "bad-op"

partial def loop (h : IO.FS.Stream) (out : IO.FS.Stream) : IO Unit := do
  let line ← h.getLine
  if line.isEmpty then return ()
  let parts := line.trimAscii.toString.splitOn " => "
  let toks (s : String) := (s.splitOn " ").filter (· ≠ "")
  let res := match parts with
    | [c, i] => handle (toks c) (toks i)
    | [c] => handle (toks c) []
    | _ => "bad-line"
  out.putStrLn res
  loop h out

def main : IO Unit := do
  let stdin ← IO.getStdin
  let stdout ← IO.getStdout
  loop stdin stdout
