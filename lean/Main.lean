import N2V.Model.Basic
import N2V.Model.Canon
open N2V

def showRes (r : Res Bytes) : String :=
  match r with
  | .ok b => "ok " ++ hexOfBytes b
  | .err m => "err " ++ m
  | .panic s => "panic " ++ s
  | .oob => "oob"
  | .overflow => "overflow"
  | .fuel => "fuel"

def b01 (b : Bool) : String := if b then "1" else "0"

def mons (l : List (String × Bool)) : String :=
  " ## " ++ " ".intercalate (l.map (fun p => p.1 ++ "=" ++ b01 p.2))

/-- `case` tokens and the implementation's observed tokens -> model line ++ monitor verdicts. -/
def handle (case impl : List String) : String :=
  match case with
  | ["canon", h] =>
    match bytesOfHex h with
    | none => "bad-hex"
    | some s =>
      let r := Canon.canon s
      let line := match r with
        | .ok t => "ok " ++ hexOfBytes t ++ " " ++ (match Canon.canon t with | .ok tt => hexOfBytes tt | _ => "!")
        | r => showRes r
      -- the component-level specification must agree with the machine model
      let specOk := match r with
        | .ok t => Canon.render (Canon.denote s) == t
        | _ => true
      let m := match impl with
        | ["ok", th, tth] =>
          match bytesOfHex th, bytesOfHex tth with
          | some t, some tt =>
            let m := Canon.monitor s t tt
            [("lenOk", m.lenOk), ("idem", m.idem), ("normal", m.normal), ("sameLoc", m.sameLoc)]
          | _, _ => [("parse", false)]
        | "panic" :: _ =>
          -- C13 is about paths of up to 60 components; the empty string is rejected upstream
          [("noPanicWithinCap", decide (s = [] ∨ Canon.numComps s false > Canon.CAP))]
        | _ => [("noAbort", false)]
      line ++ mons (("specAgrees", specOk) :: m)
  | _ => "bad-op"

partial def loop (h : IO.FS.Stream) (out : IO.FS.Stream) : IO Unit := do
  let line ← h.getLine
  if line.isEmpty then return ()
  let parts := line.trimAscii.toString.splitOn " => "
  let toks (s : String) := (s.splitOn " ").filter (· ≠ "")
  let res := match parts with
    | [c, i] => handle (toks c) (toks i)
    | [c] => handle (toks c) []
    | _ => "bad-line"
  out.putStrLn res
  loop h out

def main : IO Unit := do
  let stdin ← IO.getStdin
  let stdout ← IO.getStdout
  loop stdin stdout
