"""Per-property configuration of ./check."""

HOOK_COMMITS = ["93c5b5f", "7b65bb1", "563f8ff", "154b503", "b4271c3", "cde17b7", "d2f58b6", "8829019", "35bf3bc", "a0c9eb5"]

COMMON_ASSUME = [
    "the hand-written Lean model is faithful to /repo only as far as this run's correspondence sampled it",
    "cfg(windows) code and the `crlf` feature are out of scope",
]

def _canon_nontrivial(case, impl):
    # non-trivial: the canonical form differs from the input (something was removed/resolved)
    toks = case.split()
    it = impl.split()
    return len(it) >= 2 and it[0] == "ok" and toks[1] != it[1]

def _depfile_nontrivial(case, impl):
    # non-trivial: parsed successfully with at least one prerequisite, or a diagnostic past offset 0
    it = impl.split()
    if it[:1] == ["ok"]:
        return len(it) > 3 and it[1] != "0"
    return it[:1] == ["err"] and it[1] != "0"

def _render_nontrivial(case, impl):
    t = case.split(); it = impl.split()
    if t[0] == "taskmsg":   # non-trivial: the message was actually cut
        return len(it) == 2 and it[0] == "ok" and "2e2e2e" in it[1]
    if t[0] == "truncate":
        return len(it) == 2 and it[1] != t[1]
    if t[0] == "frame":     # non-trivial: at least one running task with an output line
        return len(t) > 9 and any(x != "~" for x in t[11::4])
    return t[0] == "bar" and any(x != "0" for x in t[1:7])

def _sched_nontrivial(case, impl):
    # non-trivial: at least two commands started
    return impl.count(" B ") >= 2

SCHED_RULE = ("random projects (2-11 build statements, 1-2 outputs each, explicit/implicit/order-only/validation "
              "inputs, phony steps, 0-3 declared pools with depth 0-3, console, undeclared pool names, ordering cycles "
              "in 1/6 of the projects, validation edges to later steps), 1-3 invocations per project with touched "
              "sources / deleted outputs in between, -j 1-4, -k none/1-3, targets by various spellings / unknown names / "
              "defaults / all, random completion order with 0/15/40% failures and 0/4% interrupts; every invocation runs "
              "the REAL run::build/Work/Runner with only process spawning scripted; observation = every state "
              "transition with counts and pending, every Progress callback, the result. Non-trivial = at least 2 "
              "commands started; distinct by case text")
SCHED_ASSUME = COMMON_ASSUME + [
    "releasing one blocked command at a time is a faithful stand-in for real completion timing (Runner::wait takes one message at a time)",
    "the HashSet iteration order in ready_dependents and the dirty/clean answers are taken from the observed trace (they are environment choices of the model); theorems quantify over all of them",
    "theorems so far: invariant preservation per state transition (`set`), the initial state, the gate, the want phase (joint induction), run-loop success; the lift to every reachable state of the run loop is in progress (DESIGN.md §7)",
]
SCHED_TB = ["work.rs modelled: BuildStates (set, want_build/want_file with re-entrancy, enqueue, pop_queued, pop_ready), Work::run, recheck_ready, ready_dependents; task.rs Runner counters; run.rs build (phases, target resolution)",
            "not modelled: threads/channel of Runner, process spawning (scripted), check_build_dirty (observed; see C02/C03)"]

def _sched(claim, props, monitors):
    return {"claim": claim, "props": props, "modes": ["sched"], "level": "proof",
            "nontrivial": {"sched": _sched_nontrivial}, "rule": SCHED_RULE, "assumptions": SCHED_ASSUME,
            "trusted_base": SCHED_TB, "monitors": monitors + ["traceConsistent"]}

def _db_nontrivial(case, impl):
    t = case.split(" ", 3)
    if t[0] == "dbr":
        # non-trivial: the cut is inside the log body (not at 0 / full length)
        return 8 < int(t[2]) < len(t[1]) // 2
    return True

DB_RULE = ("150 (quick) / 3000 (thorough) logs written by the REAL Writer for random graphs (1-4 steps, 1-3 outputs, names "
           "incl. 100-300 byte and UTF-8 paths, 0-4 or 255/256/257/300 discovered deps, hashes incl. u64::MAX); every log "
           "is cut at EVERY byte position (sampled 49 positions when longer than 400 bytes) and each prefix is opened "
           "by the REAL db::open against the same or a re-generated graph (outputs moved between steps / dropped), "
           "then one more record is appended through the returned Writer and the file re-read. Non-trivial = cut "
           "strictly inside the record area; distinct by case text")
DB_ASSUME = COMMON_ASSUME + [
    "an append of n bytes that is cut short persists a prefix of those bytes (no reordering or garbage from the file system); O_APPEND semantics; set_len truncates",
    "records beyond the field widths (>= 32768 outputs, >= 65536 deps, ids >= 2^24, names >= 32768 bytes) are excluded by the `fits` hypothesis; the writer writes nothing for over-wide counts (F7 repaired) and panics for the id/name limits",
]
DB_TB = ["db.rs modelled completely at byte level: record encoding, read_signature/read_file/read_path/read_build, IdMap, ensure_id, write_build, open's truncate-then-append",
         "hash values are opaque u64 here"]

def _load_nontrivial(case, impl):
    # non-trivial: a graph with at least one build was loaded, or a diagnostic past the first line
    it = impl.split()
    if it[:1] == ["ok"]:
        return " B 0 " not in impl
    return it[:1] == ["perr"] and len(it) > 2 and it[2] not in ("0", "1")

LOAD_RULE = ("5000 (quick) / 40000 (thorough) abstract manifests (bindings, rules with every whitelisted variable, build "
             "statements with all emptiness patterns of the 4 input and 2 output sections, escapes $ $: $$, UTF-8, "
             "defaults, pools, include/subninja files, comments) each rendered under a plain and a noisy spelling "
             "(extra blanks, $-newline continuations wherever the grammar allows incl. inside tokens, $x vs ${x}, "
             "$-escaped blanks/colons in values) and loaded by the REAL loader in a temp dir (`loadpair`); every 4th "
             "manifest with duplicate outputs injected (between statements / within one, ./ and x/../ spellings); "
             "every string of up to 3 (quick) / 4 tokens over a 22-token alphabet incl. NUL, CR, TAB, 2- and 4-byte "
             "characters; 6000 / 200000 mutated manifests (byte/token insert, delete, truncate, 60-160 byte runs of "
             "a 2-byte character, 50-70 component paths); include cycles, missing includes, empty expansions. "
             "Non-trivial = loaded graph with builds, or a diagnostic beyond line 1")
LOAD_ASSUME = COMMON_ASSUME + [
    "memory exhaustion and native stack depth on huge inputs are not modelled",
    "manifest bytes are treated as Latin-1 like the scanner does; error messages are compared by kind, file, line, caret column and excerpt bytes ({:?} renderings of offending characters are not compared)",
]
LOAD_TB = ["scanner.rs, parse.rs, eval.rs, load.rs (up to opening the log), graph.rs add_build/remove_duplicates modelled completely; format_parse_error modelled at byte level",
           "calc_evaluated_length (a capacity hint) is not modelled"]

def _hist_nontrivial(case, impl):
    # non-trivial: at least two invocations that started commands, and one that started none
    invs = impl.split(" %% ")[0].split(" ; ")
    with_starts = sum(1 for x in invs if " B " in x)
    return with_starts >= 2 and with_starts < len(invs)

HIST_RULE = ("1200 (quick) / 8000 (thorough) random projects (2-6 steps over 4 sources and 3 headers: plain, gcc-depfile, "
             "msvc /showIncludes, rspfile and phony steps; explicit/implicit/order-only/validation inputs; optional "
             "manifest generator `build build.ninja: gen build.ninja.in`, or a generated fragment `include frag.ninja` with `build frag.ninja: gen frag.ninja.in` and `build build.ninja: phony frag.ninja`) each with a history of 5-15 operations: invoke "
             "(-j 1-3, -k none/1-2, target subsets and spellings, occasional -t restat, immediate re-invocation), edit / "
             "touch / delete sources and headers, delete / tamper outputs, edit the manifest (comment, rename all rules, "
             "reorder statements, change a flag, remove a step, add an input, drop an input). Steps may have implicit outputs (tampered like the others); `rw` steps also rewrite a private input of theirs (a plain file or one declared as the output of an input-less phony step, CMake style; cleanEq is not evaluated on such manifests: the command is no function of its inputs); a source may be declared as a phony output. Played against the REAL n2 in-process in a "
             "real temp dir with logical mtimes; commands follow the shared semantics (content digest of inputs and "
             "reported deps; deps = #name tokens of the explicit inputs, written to a real depfile / as 'Note: including "
             "file' lines; !fail / !int tokens). Compared per invocation: full transition trace, result, and the whole "
             "tree (names, mtimes, contents); the log bytes are checked against the abstract log. Non-trivial = at least "
             "two invocations that started commands and one that started none")
HIST_ASSUME = COMMON_ASSUME + [
    "A-hash: 64-bit hash collisions do not occur and std's Hash serialisation is unambiguous (the model's hash is the manifest itself)",
    "A-mtime / A-quiet / A-writes: every content change comes with an mtime change, nothing else writes the tree during an invocation, a command writes exactly its declared outputs (the generator respects these; phony aliases are not used as dirtying inputs)",
    "completion order and HashSet iteration order are taken from the observed trace; everything else (which steps are dirty, what is recorded, the tree) is computed by the model",
    "theorems are at decision level (check_build_dirty / record_finished / run::build structure); the whole-history statement is checked by monitors on every generated history, not yet proved by induction over histories",
]
HIST_TB = ["work.rs check_build_dirty/ensure_input_files/stat_all_outputs/record_finished/FileState cache, hash.rs manifest, db attribution by name, load.rs, run.rs phases and reload, scheduler: all modelled and composed (Model/Work.lean `invoke`)",
           "killed invocations and real process execution are not part of this mode"]

def _hist(claim, props, monitors):
    return {"claim": claim, "props": props, "modes": ["hist"], "level": "proof", "nontrivial": {"hist": _hist_nontrivial},
            "rule": HIST_RULE, "assumptions": HIST_ASSUME, "trusted_base": HIST_TB, "monitors": monitors}

def _exec_nontrivial(case, impl):
    t = case.split()
    if t[0] in ("showinc", "lastline"):
        return len(t) > 1 and len(t[1]) > 4
    return True

PROPS = {
    "C16": {"claim": "PARTIAL by nature. Proved in Lean 4 (for all inputs): wait-status decoding (exit 0 = success, any other code = failure, a signal = failure, SIGINT = interruption, with or without core flag); output accumulation is independent of how reads cut the stream; DumbConsoleProgress prints one piece per callback, a finished command's whole output as one contiguous block exactly once (for every interleaving of starts and finishes), failures never hidden; /showIncludes filtering = payloads of the note lines in order + all other lines re-joined (F10 repaired). These models are compared with the real helpers on exhaustive token strings. OBSERVED, not provable here (real /bin/sh through the real run_command in-process, and the real n2 binary): the command string reaches sh -c unchanged (same output as asking sh directly, 15 shell idioms), exit codes 0..255 and 9 signals (SIGPIPE is excluded: Rust programs ignore it and the disposition is inherited, so it does not terminate the shell), output of 0..1 MB on stdout/stderr/both around the 4 KiB read buffer and 64 KiB pipe size, stdin = /dev/null, no inherited descriptors (own files held open, 4 commands at once), cwd, rspfile content byte-exact and output directories created, -j 1..16 with 6 commands printing 0..70000 bytes each printed once and contiguously, process exit status.",
            "props": ["C16"], "modes": ["exec"], "level": "proof", "needs_n2bin": True,
            "nontrivial": {"exec": _exec_nontrivial},
            "rule": "every string of up to 5 (quick) / 6 tokens over {a, LF, CR, blank, 'Note: including file: ', 'Note: '} for the filters; 12 (quick) / all 256 exit codes; 9 signals; 8-12 output sizes x {stdout, stderr, both}; 15 command strings; environment probes; 12-20 runs of the real binary with 6 commands at -j 1/4/16 (1..16) x 4 output sizes; rspfile / exit-status / descriptor-leak projects",
            "assumptions": COMMON_ASSUME + ["posix_spawn, pipe2(O_CLOEXEC), waitpid, /bin/sh, /proc: observed on this kernel only; signal delivery to n2 itself (Ctrl-C) is not exercised; FancyConsoleProgress (tty) printing is not modelled (C20 covers its pure helpers)"],
            "trusted_base": ["task.rs extract_showincludes/find_last_line, the status cascade of process_posix.rs::run_command, progress_dumb.rs modelled; posix_spawn/pipe/waitpid/threads observed"],
            "explanation": "logic proved in Lean and tied to the code by correspondence; operating-system behaviour observed on the real run_command and the real binary (cannot be exhibited by a Lean model)",
            "monitors": ["noNoteShown", "zeroIsSuccess", "signalIsNotSuccess", "sigintInterrupts", "outputIntact", "runsThroughSh", "stdinDevNull", "noFdLeak", "printedOnceContiguous", "rspfileExact", "outputDirsExist"]},
    "C02": _hist("Lean 4 theorems about the manifest rule: a non-phony step is judged clean only if no named file is missing, a completion record exists and its manifest equals the manifest of the files as they are now; the check is read-only; record_finished appends exactly one record carrying the manifest of the re-stat()ed post-command state, or nothing when a file is missing; the manifest names exactly dirtying inputs, discovered deps, outputs (with mtimes), command line and rspfile. The composed world model (loader + log + scheduler + dirtiness + command semantics) reproduces the real n2 on every generated history (traces, results, whole tree), and the monitors cleanEq (contents of the requested closure = from-scratch build, computed by the Lean model) and logAgrees are evaluated on the implementation's tree and log.",
                 ["C02"], ["cleanEq", "logAgrees"]),
    "C03": _hist("Lean 4 theorems: a step is judged dirty only if a named file is missing, or it has no record, or the recorded manifest differs (and is clean when none of these holds); phony steps never run; order-only/validation inputs do not enter the manifest; the manifest depends on the stat cache only through the mtimes of the files it names (an upstream re-run that keeps timestamps dirties nothing); -t restat touches no file. Tied by exact agreement of the world model with the real n2 on histories; monitors runSetAsPredicted (per invocation the set of started commands equals the set the Lean model of the manifest rule predicts from the tree and the log), noopAfterSuccess (an invocation right after a successful one of the same targets starts nothing and reports 0 tasks, whenever every named file and reported dependency exists) and restatRunsNothing on the implementation's traces.",
                 ["C03"], ["noopAfterSuccess", "restatRunsNothing", "runSetAsPredicted", "settledAfterSuccess"]),
    "C09": _hist("Lean 4 theorems: record_finished REPLACES the discovered-dependency list by what it keeps of the new report — canonicalised, without duplicates, without declared dirtying inputs (order-only inputs may stay); a vanished discovered dependency yields 'dirty', never an error; discovered dependencies are not in the scheduler's ordering inputs. Tied by the world model (real depfiles written and parsed, real /showIncludes filtering) and the monitor logAgrees: the implementation's log bytes decode to exactly the model's records by name (outputs, dependency lists) with the same hash-equality pattern.",
                 ["C09"], ["logAgrees"]),
    "C17": _hist("Lean 4 theorems about run::build: a reload is requested exactly when the manifest phase succeeded having run n != 0 commands (then no failure is on record and nothing is pending); if the phase does not succeed, build returns there (never success, never reload); after a reload the rest is a function of the reloaded graph and a fresh Work only; with an up-to-date manifest phase 2 continues on the same scheduler state. Tied by histories with a generator step that copies build.ninja.in (edited by the history) — the model reloads its own manifest text; monitors regenFirst (commands of the first Work lie in the manifest's producer cone when a reload follows) and reloadIffRan on the implementation's traces.",
                 ["C17"], ["regenFirst", "reloadIffRan", "wantedFromNewText"]),
    "C10": {"claim": "Lean 4 theorems about the parser/loader model: the section counts of every parsed build line partition its path lists in declared order for all emptiness patterns (proof through the monadic parser by bind inversion); reading further sections only appends; one file id per declared path; adjacent/empty literal parts left by escapes and continuations evaluate like their concatenation. The whole-file round trip parse∘render is validated, not yet proved: the real loader and the model agree on every generated manifest and the monitor spellingIndependent (plain vs noisy spelling load to the same graph, line numbers masked) is evaluated in Lean on the implementation's dumps.",
            "props": ["C10"], "modes": ["load"], "level": "proof", "nontrivial": {"load": _load_nontrivial},
            "rule": LOAD_RULE, "assumptions": LOAD_ASSUME, "trusted_base": LOAD_TB,
            "monitors": ["spellingIndependent"]},
    "C11": {"claim": "Lean 4 theorems about eval/load: first scope wins and the value found is expanded in the scopes after it only; undefined variables expand to empty; expansion terminates (fuel = number of scopes is always enough) and is a homomorphism over concatenation; a build-block binding of an attribute is expanded in file scope only, otherwise the rule's binding sees $in/$out, then the build block, then file scope; later redefinitions are local (insert/lookup laws). n2's include gives the included file a COPY of the scope (finding F12, open): `loadWith true` is the Ninja/property semantics as an executable specification and the check reports inputs on which the real loader differs from it as the known finding; any other difference is a violation.",
            "props": ["C11"], "modes": ["load"], "level": "proof", "nontrivial": {"load": _load_nontrivial},
            "rule": LOAD_RULE, "assumptions": LOAD_ASSUME, "trusted_base": LOAD_TB,
            "monitors": ["includeExtendsScope"]},
    "C12": {"claim": "Lean 4 theorems: format_parse_error always finds the error's line (never its panic) for every buffer and offset, its excerpt is bounded and both cuts are at character boundaries (F2 repaired); canonicalisation is total on non-empty strings (F3/F4 repaired) and the loader diagnoses the empty path; include nesting is structurally bounded (F14 repaired). Scanner-level no-out-of-bounds for all byte strings is so far validated, not proved: the real loader runs with unchecked-precondition and overflow checks ON over all short token strings, mutants and raw bytes; a panic/abort of the worker is a violation (monitor loadedOrDiagnostic) and the model (with explicit oob/panic/fuel outcomes) must agree on every input (also for depfiles and canon inputs).",
            "props": ["C12"], "modes": ["load", "depfile", "canon"], "level": "proof",
            "nontrivial": {"load": _load_nontrivial, "depfile": _depfile_nontrivial, "canon": _canon_nontrivial},
            "rule": LOAD_RULE, "assumptions": LOAD_ASSUME, "trusted_base": LOAD_TB,
            "monitors": ["loadedOrDiagnostic", "okOrDiagnostic", "noPanic", "noAbort"]},
    "C14": {"claim": "Lean 4 theorems about Graph::add_build: a statement naming an output that another statement already produces is rejected (it can never take the file over: claiming only writes the new id, so the offending entry is still there when the loop reaches it), for any position among the outputs and after any inputs were registered; repeated outputs inside one statement are de-duplicated to a duplicate-free list with the same members; the latent `explicit` miscount of remove_duplicates is exhibited. Tied to the real loader on manifests with injected duplicates (across statements, within one, ./ and x/../ spellings, via includes): error kind + both locations and warning counts compared.",
            "props": ["C14"], "modes": ["load"], "level": "proof", "nontrivial": {"load": _load_nontrivial},
            "rule": LOAD_RULE, "assumptions": LOAD_ASSUME, "trusted_base": LOAD_TB,
            "monitors": ["singleProducer"]},
    "C07": {"claim": "Lean 4 theorems for ALL record lists within the field widths and ALL cut points: a complete record is read back exactly whatever follows; a record of which only k < len bytes were written is not read at all; hence parse(log ++ torn tail) = exactly the complete records with their length as the intact prefix; a torn signature is an empty log; after truncating to the intact prefix and appending, the file parses to survivors ++ new records (so it stays loadable for ever). Tied to the real db.rs by byte-exact comparison of written logs and by opening EVERY byte prefix of each log with the real db::open (then appending and re-reading); monitors startsNormally / survivorsExact / laterLoadable are evaluated in Lean against the specification 'records wholly inside the first k bytes'.",
            "props": ["C07"], "modes": ["db"], "level": "proof", "nontrivial": {"db": _db_nontrivial},
            "rule": DB_RULE, "assumptions": DB_ASSUME, "trusted_base": DB_TB,
            "monitors": ["startsNormally", "survivorsExact", "laterLoadable"]},
    "C08": {"claim": "Lean 4 theorems: a record is attributed to a step iff it names at least one output and EVERY output it names is currently produced by that step (soundness and completeness of the attribution fold, F6 repaired), so moved or dropped outputs make a record unusable rather than misapplied; the latest attributed record is the one in force; record round trip for any shapes within the field widths; over-wide records are not written (F7 repaired). Ids are resolved through names only. Tied to the real db.rs by loading real logs against re-generated graphs over the same names; monitor attributionOk evaluated in Lean on what the real reader attached. The clause about neutral manifest edits (reordering, renaming rules, comments, adding/removing other statements) is carried by the history mode: the world model, whose step signature is a list of names and mtimes in declared order and so cannot depend on file ids or statement positions, predicts per invocation exactly which commands the real n2 starts (monitor runSetAsPredicted) over histories that include such edits.",
            "props": ["C08"], "modes": ["db", "hist"], "level": "proof", "nontrivial": {"db": _db_nontrivial, "hist": _hist_nontrivial},
            "rule": DB_RULE + " || second clause (neutral manifest edits never cause a re-run): " + HIST_RULE,
            "assumptions": DB_ASSUME + HIST_ASSUME, "trusted_base": DB_TB + HIST_TB,
            "monitors": ["attributionOk", "survivorsExact", "runSetAsPredicted", "logAgrees", "writtenReadsBack"]},
    "C01": _sched("Lean 4 theorems about the scheduler model: the readiness gate admits a build only when every producer of an ordering input is Done; everything ready_dependents promotes passed it; the gating invariant is preserved by every state transition; validation edges do not enter readiness; the want phase never resets a queued/running/finished build (joint induction over the mutually recursive want functions, covering re-entrancy). The model is tied to the real Work/Runner by exact equality of full transition traces on random graphs x schedules, and the monitors startsAfterDeps (all transitive ordering producers Done before a start) and startsOnce are evaluated in Lean on the implementation's trace.",
                  ["C01"], ["startsAfterDeps", "startsOnce", "traceSpec"]),
    "C04": _sched("Lean 4 theorems: pop_queued only hands out builds from a pool with room; the start loop never exceeds -j; per-pool running counters equal the number of Running builds of that pool across every transition; pool names are distinct with declared pools overriding built-ins; an undeclared pool is an error at enqueue time. Tied to the real scheduler by trace equality; monitor withinLimits (running set <= -j and <= depth per pool at every start) evaluated on the implementation's trace.",
                  ["C04"], ["withinLimits", "traceSpec"]),
    "C05": _sched("Lean 4 theorems: Work::run reports success only with no failed task and nothing pending; with the invariant, nothing pending means every build is Unknown, Done or Failed; a Failed producer blocks the readiness gate of its dependents; the want phase cannot revive a Failed build. Tied to the real scheduler by trace equality; monitors failuresContained, budgetRespected, exitOk, stopsOnInterrupt evaluated on the implementation's trace.",
                  ["C05"], ["failuresContained", "budgetRespected", "exitOk", "stopsOnInterrupt", "traceSpec", "budgetSpec", "keepsGoing"]),
    "C06": _sched("Lean 4 theorems: an error while collecting the wanted set (dependency cycle) returns before the run loop, so nothing starts; the diagnostic has the documented shape; readiness never looks at validation inputs; inherited Done states survive the second want phase; the run loops are total functions. Termination without the BUG outcome and 'all wanted Done when nothing fails' are so far checked by the monitor `decided`/`exitOk` on every implementation trace (cyclic, validation-cyclic and acyclic graphs) and by trace equality with the model; the progress-measure proof is in progress.",
                  ["C06"], ["decided", "exitOk", "cycleSound", "cycleComplete", "graphHyps", "traceSpec"]),
    "C18": _sched("Lean 4 theorems: target lookup is invariant under spellings with equal canonical form; an unknown name is rejected (outside restat mode) before later targets are considered; the manifest named as target is skipped; wanting more targets only turns Unknown builds into Want/Ready. Tied to the real run::build by trace equality (targets / defaults / all-files choice is part of the model); monitors onlyWanted and closureComplete (the set of builds that left Unknown = closure over ordering+validation producers of the resolved targets) evaluated on the implementation's trace.",
                  ["C18"], ["onlyWanted", "closureComplete"]),
    "C19": _sched("Lean 4 theorems: initially and across every state transition each UI count equals the number of non-phony builds in that state and `pending` the number of Want/Ready/Queued/Running builds (so the isize/usize casts never wrap: all counts in [0, #builds]); the want phase changes no finished count nor tasks_run. Tied to the real scheduler by trace equality including the counts of every transition; monitors countsOk (per update: counts = recomputed from transitions, running = started-finished, done/failed monotone) and summaryOk (ran N = successful commands) evaluated on the implementation's trace.",
                  ["C19"], ["countsOk", "summaryOk", "traceSpec"]),
    "C20": {
        "claim": "Lean 4 theorems over ALL byte strings, seconds, widths and count vectors: truncate returns a boundary-aligned prefix of at most max bytes; the repaired task_message never panics, fits the width (>= 3) and is cut on a character boundary; progress_bar has exactly its nominal width. The model is tied to the real helpers (through add-only pub wrappers) on all strings up to 3/5 characters mixing 1-4 byte characters x widths x seconds, random long strings, and exhaustive small + random count vectors.",
        "props": ["C20"],
        "modes": ["render"],
        "level": "proof",
        "nontrivial": {"render": _render_nontrivial},
        "rule": "task_message/truncate: every string of up to 3 (quick) / 5 (thorough) characters over {1,2,3,4-byte char} x widths 10..40,79-81,120,300 (quick) / 10..300 (thorough) x seconds {0,2,3,10,12345,10^6}; random 5-120 character strings; progress_bar: every count vector with entries < 3 (quick) / < 4 x bar sizes, random vectors up to 5000. Non-trivial = message actually cut / truncate shortened / non-zero counts.",
        "assumptions": COMMON_ASSUME + [
            "the debounce thread, its mutex and stdout write errors of FancyConsoleProgress are not modelled: 'never aborts the build' is carried by no-panic of the only computations on that thread plus usize arithmetic in print_progress (max_cols - 2 with max_cols >= 10)",
            "Rust &str arguments are valid UTF-8; the theorems are stronger (arbitrary bytes)",
        ],
        "trusted_base": ["progress_fancy.rs modelled: task_message, truncate, progress_bar, StateCounts::total, and one whole frame of print_progress (header, rows of up to 8 tasks incl. the last output line, '...and N more', cursor-up) as produced by the real FancyState::{update, task_started, task_output, print_progress} with the terminal replaced (width override, stdout sink); std's String::from_utf8_lossy is a parameter of the model (its result is supplied by the harness); the debounce thread is not modelled"],
    },
    "C15": {
        "claim": "Lean 4 theorems about an executable model of depfile.rs + read_depfile: the recorded prerequisites are exactly the listed ones (in order for distinct targets; none lost for repeated targets, finding F11 repaired). The byte-level parser model is tied to the real parser on all short strings over the depfile alphabet, structured depfiles under random formatting and raw bytes; the round-trip monitor runs in Lean on the real parser's output.",
        "props": ["C15"],
        "modes": ["depfile"],
        "level": "proof",
        "nontrivial": {"depfile": _depfile_nontrivial},
        "rule": "every string over {a,' ',':','\\','\n'} up to length 6 (quick) / 8 (thorough); structured depfiles "
                "(0-5 entries, 0-6 prerequisites, names with colons, backslashes inside, UTF-8; random blanks, "
                "backslash-newline continuations, blank lines, optional final newline, repeated targets) with the "
                "expected entries carried in the case for the monitor; raw byte strings incl. CR, TAB, NUL. "
                "Non-trivial = at least one prerequisite parsed or a diagnostic past offset 0.",
        "assumptions": COMMON_ASSUME + [
            "round trip parse∘render is so far validated by correspondence + monitor on structured depfiles, proved only at the entry-recording level (flatten theorems); see DESIGN.md",
        ],
        "trusted_base": ["depfile.rs modelled completely (skip_spaces, read_path, parse) over the scanner.rs model; task.rs::read_depfile flattening"],
    },
    "C13": {
        "claim": "Lean 4 theorems about an executable model of canonicalize_path (never lengthens; always succeeds within the 60-component capacity; only the two source panics are possible abnormal outcomes), model tied to the real function by differential execution on every string up to length 7/10 over {a,b,.,/,\\} plus random long UTF-8 paths; the property's monitors (length, idempotence, normal form, same denotation) are Lean predicates evaluated on the implementation's outputs.",
        "props": ["C13"],
        "modes": ["canon"],
        "level": "proof",
        "nontrivial": {"canon": _canon_nontrivial},
        "rule": "exhaustive strings over {a,b,'.','/','\\\\'} up to length 7 (quick) / 10 (thorough) plus random "
                "long paths (UTF-8 names, '.', '..', mixed/doubled separators, up to 64 components); non-trivial = "
                "canonical form differs from the input; distinct by case text",
        "assumptions": COMMON_ASSUME + [
            "in-place rewriting (copy_within on the same buffer) equals the out-of-place model because every write index is < src (model-level fact; aliasing itself covered by correspondence only)",
            "paths are valid UTF-8 (canonicalize_path takes &mut String)",
        ],
        "trusted_base": ["canon.rs modelled: canonicalize_path lines 44-137 incl. StackStack capacity panic and the empty-path assert"],
    },
}


# --- properties whose last clause is about whole invocations also run the history mode -----------------
PROPS["C13"]["modes"] = ["canon", "hist"]
PROPS["C13"]["nontrivial"]["hist"] = _hist_nontrivial
PROPS["C13"]["monitors"] = ["noPanic", "lenOk", "idem", "normal", "sameLoc", "logAgrees", "runSetAsPredicted", "cleanEq"]
PROPS["C13"]["rule"] += " || one node per location across manifest / command line / reported dependencies: " + HIST_RULE
PROPS["C13"]["claim"] += (" The clause 'two spellings of one location resolve to the same graph node, whether written in the manifest, "
    "given on the command line or reported by a depfile / showIncludes' is carried by the history mode: sources report dependencies "
    "under non-canonical spellings (#./h0), targets are given as ./o0, and the world model (which canonicalises every reported name "
    "before interning it) must predict the real n2's runs, tree and log exactly (monitors logAgrees, runSetAsPredicted, cleanEq).")
PROPS["C13"]["assumptions"] = PROPS["C13"]["assumptions"] + HIST_ASSUME
PROPS["C13"]["trusted_base"] = PROPS["C13"]["trusted_base"] + HIST_TB

PROPS["C18"]["modes"] = PROPS["C18"]["modes"] + ["hist"]
PROPS["C18"]["nontrivial"]["hist"] = _hist_nontrivial
PROPS["C18"]["monitors"] = PROPS["C18"]["monitors"] + ["wantedFromNewText", "runSetAsPredicted", "unknownRejected"]
PROPS["C18"]["rule"] += " || names resolved against the reloaded manifest: " + HIST_RULE
PROPS["C18"]["claim"] += (" Command-line names are resolved against the RELOADED manifest: carried by the history mode (manifest generators "
    "whose output renumbers or adds files), monitor wantedFromNewText.")


# --- claims: whole-invocation theorems added after the first round -------------------------------------
_TRACE = (" WHOLE INVOCATIONS: Lemmas/SchedTrace + SchedBuild prove that EVERY trace the model of run::build can produce "
          "(any graph whose producers are builds, any arguments, any environment behaviour, any outcome) satisfies the decidable "
          "per-event specification TraceSpec.okTrace (legal transitions only, exact counts at every transition and update, limits "
          "respected when a command enters Running, the gate passed when a build becomes Ready); Lemmas/TraceFacts derives the "
          "property-level statements from okTrace alone, so they hold equally of every implementation trace on which the monitor "
          "traceSpec (the same definition, evaluated by the driver) is true.")
PROPS["C01"]["claim"] += _TRACE + (" For C01: whenever a command starts, every transitive producer of its ordering inputs is Done and it "
    "was not started before in this Work (starts_after_deps_and_once); validation edges are not ancestors.")
PROPS["C04"]["claim"] += _TRACE + (" For C04: in every state any invocation passes through at most -j builds are Running and at most depth "
    "of each pool with depth > 0 (limits_at_every_instant).")
PROPS["C05"]["claim"] += _TRACE + (" For C05: once a step has Failed no step that transitively needs it is started later in the same Work "
    "(failure_contained); accounting (Lemmas/SchedAcct): every start happened with fewer failures than the -k budget and before any "
    "interruption (budget_respected, monitor budgetSpec), success is reported only with no failed or interrupted command "
    "(success_means_no_failure); monitor keepsGoing: a failure within budget leaves no wanted step that is not downstream of a "
    "failure unfinished.")
PROPS["C19"]["claim"] += _TRACE + (" For C19: the counts of every update and every transition are exact (counts_exact_at_every_update / "
    "_transition), finished builds stay finished (finished_never_decrease), and `ran N tasks` reports exactly the number of commands "
    "that completed successfully, a reload happening exactly after a manifest phase with N > 0 (ran_n_tasks, reload_after_commands).")
PROPS["C06"]["claim"] += (" NEVER THE INTERNAL ERROR: for every graph without an ordering cycle and with consistent cross references "
    "(hypotheses GraphOK/DepsOK, decided on every real graph by monitor graphHyps), -j >= 1 and every environment behaviour, "
    "run::build never ends in `BUG: no work to do and runner not running` (never_internal_error; Lemmas/SchedProgress carries the "
    "converse bookkeeping invariant PInv through the want phase and Work::run and refutes the stalled state by descending the "
    "producer order); and when it reports success every wanted build is Done (success_means_all_up_to_date).")
PROPS["C13"]["claim"] = ("Lean 4 theorems about an executable byte-level model of canonicalize_path (two cursors, offset stack): FUNCTIONAL "
    "CORRECTNESS for every non-empty path of any length: canon s = render (denote s) (Lemmas/Canon: the loop is simulated by a fold "
    "over the path's components), hence idempotent, same denotation, normal form (no '.', empty, or 'name/..' components; leading "
    "'..' and the root kept; a trailing separator is significant), and two spellings get the same canonical bytes iff they denote "
    "the same location; never lengthens; the empty path is the only refused input. ") + PROPS["C13"]["claim"]

PROPS["C12"]["claim"] = ("TOTALITY PROVED AT BYTE LEVEL for both parsers, for every input (Lemmas/Scanner, DepfileTotal, ParseTotal): over any "
    "NUL-terminated buffer, from a scanner in good standing, depfile::parse and one round of the manifest parser's Parser::read "
    "(all statement kinds, sub-parsers, escapes, continuations) return a value or a parse error with an offset; reading outside "
    "the buffer, stepping back before the start, wrapping the line counter and running out of fuel (a loop that does not advance) "
    "are unreachable, including under scanner.back's two-byte retreat over CR LF; every non-EOF item consumes a byte, so the "
    "statement loop ends. ") + PROPS["C12"]["claim"]
PROPS["C15"]["claim"] += (" The byte-level parser is TOTAL for every byte string (depfile_parse_total): entries or a parse error, never an "
    "out-of-bounds read, a wrapped counter or a non-advancing loop.")

PROPS["C06"]["claim"] += (" TERMINATION of Work::run (run_loops_terminate, Lemmas/SchedTerm): in both phases the loops never end because the "
    "model's fuel ran out; each continuing round moves a build forward (measure = sum of state codes, at most 6 per build), each start "
    "and each ready-loop round consumes a build of a finite stock. THE WANT PHASE TERMINATES TOO (want_phase_terminates, Lemmas/SchedWantTerm): "
    "want_file/want_build with re-entrant visits through validation edges and input lists of any length never run out of wantFuel = "
    "(longest input list+3)(#builds+1)(#files+1)+2 on any graph whose references are in range (true of every loaded graph: "
    "want_phase_terminates_loaded); measure (#Unknown builds)(F+1) + #files off the cycle stack. A REPORTED "
    "DEPENDENCY CYCLE IS REAL (cycle_diagnostic_sound): the named files form a cycle of ordering edges returning to the first; "
    "validation edges start a fresh stack.")

PROPS["C19"]["monitors"] = PROPS["C19"]["monitors"] + ["totalIsSum"]
PROPS["C09"]["monitors"] = PROPS["C09"]["monitors"] + ["notesHidden", "checkErrorsAsPredicted"]

PROPS["C14"]["monitors"] = PROPS["C14"]["monitors"] + ["oneNodePerLocation"]
PROPS["C13"]["modes"] = PROPS["C13"]["modes"] + ["load"]
PROPS["C13"]["nontrivial"]["load"] = PROPS["C14"]["nontrivial"]["load"]
PROPS["C13"]["monitors"] = PROPS["C13"]["monitors"] + ["oneNodePerLocation"]
PROPS["C13"]["rule"] += " || spellings written in the manifest: " + PROPS["C14"]["rule"]

PROPS["C16"]["modes"] = PROPS["C16"]["modes"] + ["sched"]
PROPS["C16"]["nontrivial"]["sched"] = _sched_nontrivial
PROPS["C16"]["monitors"] = PROPS["C16"]["monitors"] + ["stopsOnInterrupt"]
PROPS["C16"]["rule"] += " || 'SIGINT is an interruption that stops the build' at scheduler level: " + SCHED_RULE
PROPS["C16"]["claim"] += (" The last clause (an interrupted command stops the build: nothing is started afterwards) is carried by the scheduler "
    "mode (trace equality with the model, whose run loop returns at the first Interrupted completion, and monitor stopsOnInterrupt).")

PROPS["C10"]["claim"] += (" BYTE LEVEL (Lemmas/EvalSpec): read_eval returns exactly the parts written — literal runs, $var/${var} references, "
    "the escapes `$ ` `$$` `$:` and $-newline continuations with any indentation — and stops at the newline or path terminator "
    "(values_read_as_written); hence two texts that differ only in $var versus ${var} spelling are read as the same value "
    "(var_spelling_independent), and a continuation placed inside a literal does not change any expansion (continuation_placement). "
    "STATEMENT LEVEL (Lemmas/StmtSpec): Parser::read on a `build` statement written as explicit outs [| implicit outs] : rule "
    "explicit ins [| implicit] [|| order-only] [|@ validation] + indented bindings, with any spacing (spaces, $-newline) between "
    "tokens, returns exactly those lists in that order with the section counts equal to the section lengths, the bindings in "
    "written order, and leaves the scanner at the next statement (build_statement_read_as_written; BuildWF is met by a concrete "
    "statement using every section kind); likewise top-level bindings, `rule` blocks, `default`, `include`/`subninja`, and the "
    "skipping of blank and comment lines. `pool` blocks and the file-level loop over statements (Loader) have no such theorem; "
    "they are tied by the correspondence run (two random spellings of every generated manifest).")
PROPS["C15"]["claim"] += (" BYTE-LEVEL ROUND TRIP (parse_reads_what_was_written): for every depfile of `target: prerequisite ...` entries with any "
    "spaces before the colon, gaps of spaces and backslash-newline continuations, blank space anywhere and path bytes including "
    "colons, parse returns exactly the listed targets and prerequisites in order.")

PROPS["C14"]["claim"] += (" WHOLE-LOAD INVARIANT (Lemmas/LoadInv, at_most_one_producer): for EVERY file system content, main manifest name and "
    "nesting of include/subninja, the graph a successful load returns has: an output listed by two build statements is listed by one "
    "and the same statement; a file's recorded producer lists it and every listed output records that producer; no statement lists an "
    "output twice (repeats are kept once); no two nodes share a name. Proved as an invariant of idFromCanonical / Graph::add_build "
    "(dependents fold, the claim loop's exact effect on the file table, remove_duplicates) carried through Loader::path, evalPaths, "
    "Loader::add_build, the statement loop and parseFile by induction on fuel and nesting depth.")
PROPS["C06"]["claim"] += (" GRAPH HYPOTHESES DISCHARGED (loaded_graph_meets_hypotheses, Lemmas/LoadSched): GraphOK and DepsOK, the hypotheses "
    "of the scheduler theorems, hold of the graph every invocation schedules on — load::read's result for any file system and log, including "
    "the names interned while attaching the log; the monitor graphHyps still evaluates them on every real graph dump.")

PROPS["C12"]["claim"] += (" WHOLE LOADER (load_total, Lemmas/LoadTotal): for every file system content and manifest name, load::read up to "
    "opening the log returns a loader (with consistent graph cross references) or one of the user diagnostics — parse error, duplicate output, "
    "empty path, unreadable file, include nesting, unknown rule, invalid deps, unpaired rspfile; the model's internal outcomes (canonicalisation "
    "panic, unknown file id in add_build, unterminated scanner buffer, out-of-bounds read, statement/parser loop out of fuel) are unreachable. "
    "Proof: the parser totality theorem per round + strict progress of every non-EOF item as the statement loop's measure, the graph invariant "
    "for id ranges, canon_spec for paths, induction on nesting depth.")

PROPS["C03"]["claim"] += (" WHOLE INVOCATIONS (repeated_build_does_nothing, Lemmas/WorkClean + SchedClean + RunClean + WorldClean): for EVERY "
    "manifest, tree, log, argument vector (targets, -j, -k, -t restat) and every scheduling behaviour of the environment, if the manifest "
    "loads and every non-phony step in the closure the invocation may consider is up to date (every dirtying input, discovered dependency "
    "and output exists; the step's latest attributed record is the manifest of the files as they are; a generated discovered dependency is "
    "produced by an ordering ancestor) then load::read + run::build leave tree, clock and log exactly as they were, start and finish no "
    "command, request no reload, and a successful result reports 0 tasks ('no work to do'). Proof: check_build_dirty on an up-to-date step "
    "answers clean and only grows a truthful stat cache (checkDirty_upToDate); a run whose checks answer clean — each check relying on all "
    "transitive ordering ancestors being Done, which the scheduler invariant provides — starts nothing (runLoop_quiet2), through both phases "
    "and target resolution, restricted to the requested closure (build_only_requested). That the state a SUCCESSFUL build leaves is of this "
    "kind is so far checked, not proved: monitor settledAfterSuccess decides the same predicate (World.settled) on the implementation's tree "
    "+ the log (tied by logAgrees) after every successful invocation whose declared files all exist; evidence counts how often it applied.")

PROPS["C20"]["claim"] += (" WHOLE FRAMES (task_rows_fit, all_task_rows_fit, frame_never_panics): for every count vector, every list of running tasks "
    "(messages, ages, last output lines of ANY bytes after std's lossy decoding) and every width n2 accepts (>= 10, or none: 80), one "
    "frame of print_progress is computed without panic or usize underflow, every task row and every last-output-line row is at most the "
    "width in bytes, and an output-line row is two blanks + a prefix of the decoded line ending on a character boundary. Tied to the real "
    "FancyState (update/task_started/task_output/print_progress run unmodified; only get_cols and the stdout write are replaced under the "
    "verif feature) by exact equality of the frame bytes on random frames; monitors rowsFit, lastLineCut, frameShape, noPanic decide the "
    "same facts on the real frame.")
PROPS["C20"]["rule"] += (" || frames: 4000 (quick) / 60000 (thorough) random frames: 0-12 running tasks (messages of 1-200 mixed-width characters, ages "
    "0..10^5 s as far as the machine's uptime allows, last output line absent / ASCII / UTF-8 / UTF-8 with stray bytes / raw bytes, 0-320 bytes), "
    "widths none / 10..300, counts 0..60 per state. Non-trivial = a task with an output line.")

PROPS["C16"]["claim"] += (" Output directories along a whole invocation (output_dirs_exist_every_step): also after earlier commands removed directory "
    "trees, the parent of each output exists when its step's command starts (create_parent_dirs runs before EVERY command); observed on the real "
    "binary by the family `n2bin outchain` (chains of steps whose commands rm -rf directories).")

PROPS["C15"]["claim"] += (" LAST LINE WITHOUT NEWLINE (parse_reads_last_line_without_newline): the same when the file ends right after the last "
    "entry; the loop body is proved once for an entry ended by a newline OR by the end of the file (entry_spec), the loop over entries for "
    "any tail on which the loop is known (parseLoop_spec_gen). CR LF line ends remain correspondence-only.")

PROPS["C02"]["claim"] += (" WHAT AN INVOCATION MAY CHANGE (invocation_changes_only_outputs, Lemmas/SchedEnv + WorkFrame): through the whole of "
    "run::build, for every loadable world, arguments and scheduling: every file that is not an output of a build statement (nor the private "
    "input an rw command of the abstract semantics rewrites) keeps its exact state; the log only grows; the signatures loaded at start-up, the "
    "build statements, the ids and names of known files are unchanged; proved from a generic lemma (build_env: run::build preserves every "
    "environment property that check_build_dirty, a command's completion + record_finished, and -t restat adoption preserve).")
PROPS["C18"]["claim"] += (" A name only the build log knows (removed step's output, depfile-only header) is rejected like any unknown name "
    "(log_only_name_rejected; finding F13 repaired, the model carries State::manifest_files); monitor unknownRejected on histories that name such files.")

PROPS["C03"]["claim"] += (" THE ROUND TRIP (build_after_successful_build_does_nothing, Lemmas/SchedDone + WorkSettled + WorldSettled), proved for "
    "projects WITHOUT discovered dependencies (no depfile/deps, no rewritten inputs, no dependency lists in the log) on acyclic graphs: if an "
    "invocation succeeds without reloading, the files the steps it wanted name exist afterwards and the manifest loads to "
    "the same graph, the next invocation with the same arguments changes nothing, starts nothing and reports 0 tasks - for all scheduling "
    "behaviours of both invocations. Carried by a joint scheduler/environment invariant (JS) through Work::run: generic lemma runLoop_done "
    "(an invariant that depends on the scheduler only through the Done set and is kept by check/adopt/success under 'the step is not Done, all "
    "its transitive ordering ancestors are' holds whenever run returns success). With discovered dependencies the second half is still only "
    "checked (monitor settledAfterSuccess).")
PROPS["C02"]["claim"] += (" DONE STEPS ARE SETTLED (done_steps_are_settled; same restriction): at the end of a successful run::build the stat cache is "
    "truthful except about outputs of steps not Done, every record appended belongs to a Done step, dirtying inputs of Done steps come from Done "
    "steps, and the signature the next start-up attaches to a Done step whose files exist is the manifest of the files as they are now.")

PROPS["C07"]["claim"] += (" EVERY HISTORY (survives_every_history / survives_from_scratch): a small machine for what invocations do to the file "
    "(read; keep the intact prefix or write a fresh signature; append complete records; possibly die after k bytes of a record or of the "
    "signature) - for ANY sequence of such invocations the file is never refused, always has the shape 'complete records + strict prefix of "
    "one more record (or of the signature)', and the next start-up loads exactly the records whose append completed, in order.")
PROPS["C10"]["claim"] += (" FILE LEVEL (manifest_read_as_written; Lemmas/FileSpec): for a main manifest whose text is any sequence of written statements "
    "(bindings, rule / pool blocks, build statements, default) with blank lines and comments anywhere, load::read = the fold of the statements' "
    "effects over the loader, in order (stmtLoop_file: noise skipped with one unit of fuel each, every statement read by its byte-level theorem, "
    "the scanner handed on at exactly the next statement); an include / subninja line hands the named file's content to the nested-file parser, to which nested_file_read_as_written applies again (any depth).")
PROPS["C10"]["claim"] += (" `pool` blocks now have their statement-level theorem too (pool_read_as_written: name and the depth its `depth` binding evaluates to).")
PROPS["C18"]["claim"] += (" THE OTHER HALF (requested_closure_is_marked, Lemmas/SchedComplete): when run::build reports success every build a requested file "
    "needs through ordering OR validation inputs has left Unknown - joint induction over want_file / want_build / the two input loops with the invariant "
    "'every marked build not inside its own validation loop has the producers of all its inputs marked' (re-entrant visits included), and Work::run never "
    "un-marks a build (runLoop_mono). With only_requested_closure: exactly the requested closure.")

PROPS["C02"]["claim"] += (" NEVER SKIPS A CHANGED STEP (never_skips_a_changed_step, changed_step_is_not_clean, clean_iff_up_to_date; Lemmas/WorkSkip): at any point "
    "of any invocation with a truthful stat cache, a non-phony step that check_build_dirty finds clean has every dirtying input, remembered "
    "dependency and output present and carries (from its latest record, C09) exactly the manifest of the tree as it is now - names + mtimes of "
    "inputs, remembered dependencies and outputs, command line, response file; so any such difference, a removed file or a missing record means "
    "'not clean'. With the generated inputs stat()ed, clean <-> up to date.")
PROPS["C03"]["claim"] += (" ROUND TRIP WITH DISCOVERED DEPENDENCIES (build_after_successful_build_does_nothing_with_depfiles; Lemmas/WorkRecordD, "
    "WorkSettledD, WorldSettledD): for ANY prior log and any project without input-rewriting commands, if an invocation succeeds without a reload, "
    "the dependencies its finished steps remember are source files, and the named files exist afterwards, the next identical invocation changes "
    "and runs nothing. Invariant JD (graph only gains uniquely named source files; for each Done step whose files exist the latest attributed "
    "record = manifest of the tree now + its current dependency names) through Work::run by runLoop_done; record_finished with reported "
    "dependencies (recordFinished_gen); start-up re-attaches exactly that record (applyLog_spec).")
PROPS["C02"]["claim"] += (" done_steps_are_settled_with_depfiles: the same invariant at the end of every successful run::build, discovered dependencies included.")
PROPS["C02"]["claim"] += (" ALSO AFTER A FAILED BUILD (done_steps_are_settled_also_after_a_failed_build; Lemmas/SchedDone2 runLoop_done_ok / build_done_or_failed): "
    "the invariant holds at every ordinary end of run::build - success, a failed command, an exhausted -k budget, an interruption.")
PROPS["C05"]["claim"] += (" NEVER RECORDED (failed_command_is_never_recorded): in any invocation ending in success or ordinary failure, no record "
    "appended to the log is attributed to a step that is not Done at the end (Failed, running, waiting).")
PROPS["C03"]["claim"] += (" AFTER A FAILED BUILD (completed_steps_are_up_to_date_next_time; next_startup_upToDate): every non-phony step that was Done when "
    "an invocation stopped (success or ordinary failure) and whose files exist is UpToDate in the next invocation's freshly loaded environment, "
    "so what a failed build completed is not redone; completed_steps_are_up_to_date_next_time_reloaded: the same for the part of an invocation after a manifest reload.")
PROPS["C03"]["claim"] += (" RESTAT (untouched_step_is_not_rerun, upToDate_frame): an up-to-date step whose own files keep their modification times stays "
    "up to date whatever other commands do, and is found clean - being downstream of a step that ran is not a reason to run.")
PROPS["C03"]["claim"] += (" REFLECTION (settled_world_is_left_alone, Lemmas/WorldReflect): the decidable predicate the monitor settledAfterSuccess evaluates "
    "on the world the real n2 left behind (World.settledC = World.settled + a closedness check of the computed closure) IMPLIES the hypothesis of "
    "repeated_build_does_nothing - so every world on which the monitor said 'settled' (evidence: driver.settledStates) is one for which it is proved "
    "that any further invocation changes and runs nothing.")
PROPS["C11"]["claim"] += (" FILE LEVEL (top_down_at_file_level, binding_evaluated_where_written, subninja_scope_is_private, include_scope; Lemmas/FileSpec): "
    "the effect of the first statements of a file is independent of what follows; a binding is evaluated once in the scope of the lines before it; "
    "after `subninja` the including file keeps its scope; after `include` it continues with afterInclude ie (its own scope in n2 = finding F12, the "
    "included file's final scope in the specification).")
PROPS["C14"]["claim"] += (" STATEMENT LEVEL (duplicate_output_statement_is_rejected): once a build statement's paths are evaluated and interned, an output "
    "that an earlier statement (of any file of the manifest tree: the graph is shared) already produces makes Loader::add_build fail whatever else the "
    "statement says; with C10's file-level theorem the whole load fails.")
PROPS["C06"]["claim"] += (" CYCLE DIAGNOSIS IS COMPLETE (cycle_among_requested_steps_is_diagnosed; Lemmas/SchedAcyclic): want_build marks a build only after its "
    "ordering inputs have been walked, so whenever want_file succeeds from an unmarked state no build the target needs is its own ordering ancestor - a "
    "dependency cycle among requested steps therefore always ends in the `dependency cycle` error (it cannot run out of fuel), a cycle closed only by a "
    "validation edge is accepted.")
PROPS["C06"]["claim"] += (" NO ACYCLICITY HYPOTHESIS NEEDED (never_internal_error_on_any_graph, success_means_all_up_to_date_on_any_graph; Lemmas/SchedReg): "
    "runLoop_no_bug re-proved under REGIONAL acyclicity (only marked builds need a rank; Work::run never marks a new build), which a successful want phase "
    "provides (rank = number of ordering ancestors) - so for every graph, cyclic or not, run::build never ends in the BUG panic and success means every wanted step is Done.")
PROPS["C03"]["claim"] += (" The round-trip theorems no longer assume an acyclic graph (a successful first invocation implies it for what it touched).")
PROPS["C08"]["props"] = ["C08", "C08H"]
PROPS["C08"]["claim"] += (" HISTORY LEVEL (record_follows_its_outputs, lastRec_spec; Props/C08H): for any log whatever wrote it, a step of the CURRENT manifest is "
    "given at start-up the dependency list and signature of the LAST record all of whose outputs it produces now; records naming an output it does not "
    "produce now neither count nor shadow it.")
PROPS["C09"]["claim"] += (" ACROSS INVOCATIONS, FOR EVERY LOG (Lemmas/WorkDisc): start-up (applyLog, records WITH dependency lists) only interns source "
    "files and attaches to each step exactly the dependency list and signature of the LATEST record attributed to it "
    "(remembered_by_every_later_invocation, nothing_remembered_without_record); a success's record is the latest until the next one "
    "(latest_success_wins, success_writes_its_report); a remembered dependency that is missing or whose mtime differs from the recorded "
    "stamp means the step is not found clean, at any point of any invocation with a truthful stat cache (changed_dependency_is_dirty); "
    "remembered source files can never make the check fail (remembered_sources_never_fail).")
PROPS["C09"]["modes"] = PROPS["C09"]["modes"] + ["showinc"]
PROPS["C09"]["nontrivial"]["showinc"] = _exec_nontrivial
PROPS["C09"]["monitors"] = PROPS["C09"]["monitors"] + ["notesAllReported", "noNoteShown"]
PROPS["C09"]["rule"] += (" || the text functions of task.rs alone (mode showinc): extract_showincludes / find_last_line on every string of up to 5 (quick) / 6 tokens over "
    "{a, LF, CR, blank, 'Note: including file: ', 'Note: '} and 3000 / 60000 random compiler outputs whose notes name files with arbitrary bytes "
    "(Latin-1, invalid UTF-8, multi-byte), CR LF / LF ends; monitor notesAllReported: the reported list is exactly the notes' payloads.")
PROPS["C12"]["claim"] += (" PARSE-ERROR OFFSETS (parse_errors_are_rendered): every error the manifest parser returns carries an offset inside the "
    "buffer (<= its size), so the text shown is format_parse_error inside the range format_total covers; the same bound for depfile parse errors (depfile_parse_total).")
PROPS["C12"]["modes"] = PROPS["C12"]["modes"] + ["diag"]
PROPS["C12"]["needs_n2bin"] = True
PROPS["C12"]["nontrivial"]["diag"] = (lambda case, impl: True)
PROPS["C12"]["monitors"] = PROPS["C12"]["monitors"] + ["binNoPanic", "binDiagnostic"]
PROPS["C12"]["rule"] += (" || the real binary (mode diag): 12 positions in which n2 quotes a string of the manifest or the command line in a diagnostic "
    "or a status line (output produced twice, output repeated in one statement, deps, pool, include, subninja, missing input, command line target, "
    "description, command, depfile, rule name) x 54 strings that are awkward to format (truncated / overlong / surrogate / out-of-range UTF-8, lone "
    "continuation bytes, 0xff, quotes, backslash, control and non-printable characters; alone, after 'out', before 'x'; thorough: + 400 random "
    "concatenations); expected: `n2: error:` and exit 1 where the input is in error, the ordinary outcome otherwise, never a panic (F15).")
PROPS["C12"]["claim"] += (" The diagnostics that quote a manifest string (F15 repaired: `{:?}` of a String ending inside a multi-byte sequence panicked) "
    "are not modelled - Rust's formatting machinery is outside the model - and are checked on the real binary only (mode diag).")
PROPS["C17"]["claim"] += (" BEFORE ANYTHING ELSE (manifest_phase_considers_only_the_manifest): when run::build asks for a reload, the only builds that ever "
    "left Unknown are those the manifest needs - no target, default or other output has been looked at. WHOLE INVOCATION "
    "(invocation_after_regeneration): after a reload everything is computed from the tree, clock and log the manifest phase left: the manifest is "
    "loaded again, signatures attached from the log as it is, targets resolved by a fresh Work; only the trace and the task count of the first part survive.")
PROPS["C17"]["modes"] = PROPS["C17"]["modes"] + ["sched"]
PROPS["C17"]["nontrivial"]["sched"] = _sched_nontrivial
PROPS["C17"]["monitors"] = PROPS["C17"]["monitors"] + ["exitOk", "stopsOnInterrupt", "traceSpec"]
PROPS["C17"]["rule"] += " || 'a failed regeneration stops everything' at scheduler level (manifest-generator steps with prerequisites, scripted failures): " + SCHED_RULE

# -j / -k through parse_args of the real binary (verif_build constructs work::Options directly)
for _p in ("C04", "C05"):
    PROPS[_p]["modes"] = PROPS[_p]["modes"] + ["opts"]
    PROPS[_p]["needs_n2bin"] = True
    PROPS[_p]["nontrivial"]["opts"] = (lambda case, impl: True)
PROPS["C04"]["monitors"] = PROPS["C04"]["monitors"] + ["cliJobsBounded", "cliAllRan"]
PROPS["C05"]["monitors"] = PROPS["C05"]["monitors"] + ["cliBudgetRespected", "cliBudgetUsed", "cliRestStillBuilt", "cliExitReflectsFailure"]
_OPTS_RULE = (" || the options as the REAL binary parses them (mode opts; the sched mode hands work::Options to run::build directly): "
    "-k absent/1/2/3/5 x (1, 3, 4+2 good, 0+2 good) independent failing steps x -j 1/3 - failing commands started between min(k, n) and "
    "min(n, k + j - 1), every good step built when the budget is never reached, exit status 1 iff something failed; -j 1/2/3/5 over 8 "
    "independent steps and pools of depth 1/2/3/0/console over 6 - each command records how many run at that moment, the largest count is "
    "at most -j and the pool's depth (an upper bound only: timing can lower the count, never raise it); thorough: + 60 / 30 random combinations.")
PROPS["C04"]["rule"] += _OPTS_RULE
PROPS["C05"]["rule"] += _OPTS_RULE

PROPS["C18"]["modes"] = PROPS["C18"]["modes"] + ["opts"]
PROPS["C18"]["needs_n2bin"] = True
PROPS["C18"]["nontrivial"]["opts"] = (lambda case, impl: True)
PROPS["C18"]["monitors"] = PROPS["C18"]["monitors"] + ["cliSelectsOnlyPlace"]
PROPS["C18"]["rule"] += (" || -C / -f / builddir / positional targets as the REAL binary parses them (mode opts): two directories x two manifests "
    "(one setting builddir) whose commands write a marker naming directory and manifest; -C d, -f alt.ninja, both in either order, x 10 target "
    "lists (none -> `default a`, a, b, both in either order, repeated, ./b, an unknown name alone / first / last); expected exactly: the outputs "
    "built, in which directory, with which manifest's command, where the log lies, exit status 1 and nothing built when a name is unknown.")

PROPS["C19"]["modes"] = PROPS["C19"]["modes"] + ["opts"]
PROPS["C19"]["needs_n2bin"] = True
PROPS["C19"]["nontrivial"]["opts"] = (lambda case, impl: True)
PROPS["C19"]["monitors"] = PROPS["C19"]["monitors"] + ["cliSummaryExact"]
PROPS["C19"]["rule"] += (" || the summary line and exit status as run_impl of the REAL binary prints them (mode opts; the other modes read the task "
    "count run::build returns): n copying steps, a second invocation after m sources changed and f failing steps were added, (n, m, f) over 12 "
    "fixed combinations incl. 0, 1 (singular), 12/11 (thorough: + 40 random): `n2: ran N task(s), now up to date` with N = commands that "
    "succeeded, `n2: no work to do` exactly when N = 0, neither line and exit status 1 after a failure, all outputs current at the end.")
