"""Per-property configuration of ./check."""

HOOK_COMMITS = ["93c5b5f", "7b65bb1", "563f8ff", "154b503"]

COMMON_ASSUME = [
    "the hand-written Lean model is faithful to /repo only as far as this run's correspondence sampled it",
    "cfg(windows) code and the `crlf` feature are out of scope",
]

def _canon_nontrivial(case, impl):
    # non-trivial: the canonical form differs from the input (something was removed/resolved)
    toks = case.split()
    it = impl.split()
    return len(it) >= 2 and it[0] == "ok" and toks[1] != it[1]

def _depfile_nontrivial(case, impl):
    # non-trivial: parsed successfully with at least one prerequisite, or a diagnostic past offset 0
    it = impl.split()
    if it[:1] == ["ok"]:
        return len(it) > 3 and it[1] != "0"
    return it[:1] == ["err"] and it[1] != "0"

PROPS = {
    "C15": {
        "claim": "Lean 4 theorems about an executable model of depfile.rs + read_depfile: the recorded prerequisites are exactly the listed ones (in order for distinct targets; none lost for repeated targets, finding F11 repaired). The byte-level parser model is tied to the real parser on all short strings over the depfile alphabet, structured depfiles under random formatting and raw bytes; the round-trip monitor runs in Lean on the real parser's output.",
        "props": ["C15"],
        "modes": ["depfile"],
        "level": "proof",
        "nontrivial": {"depfile": _depfile_nontrivial},
        "rule": "every string over {a,' ',':','\\','\n'} up to length 6 (quick) / 8 (thorough); structured depfiles "
                "(0-5 entries, 0-6 prerequisites, names with colons, backslashes inside, UTF-8; random blanks, "
                "backslash-newline continuations, blank lines, optional final newline, repeated targets) with the "
                "expected entries carried in the case for the monitor; raw byte strings incl. CR, TAB, NUL. "
                "Non-trivial = at least one prerequisite parsed or a diagnostic past offset 0.",
        "assumptions": COMMON_ASSUME + [
            "round trip parse∘render is so far validated by correspondence + monitor on structured depfiles, proved only at the entry-recording level (flatten theorems); see DESIGN.md",
        ],
        "trusted_base": ["depfile.rs modelled completely (skip_spaces, read_path, parse) over the scanner.rs model; task.rs::read_depfile flattening"],
    },
    "C13": {
        "claim": "Lean 4 theorems about an executable model of canonicalize_path (never lengthens; always succeeds within the 60-component capacity; only the two source panics are possible abnormal outcomes), model tied to the real function by differential execution on every string up to length 7/10 over {a,b,.,/,\\} plus random long UTF-8 paths; the property's monitors (length, idempotence, normal form, same denotation) are Lean predicates evaluated on the implementation's outputs.",
        "props": ["C13"],
        "modes": ["canon"],
        "level": "proof",
        "nontrivial": {"canon": _canon_nontrivial},
        "rule": "exhaustive strings over {a,b,'.','/','\\\\'} up to length 7 (quick) / 10 (thorough) plus random "
                "long paths (UTF-8 names, '.', '..', mixed/doubled separators, up to 64 components); non-trivial = "
                "canonical form differs from the input; distinct by case text",
        "assumptions": COMMON_ASSUME + [
            "in-place rewriting (copy_within on the same buffer) equals the out-of-place model because every write index is < src (model-level fact; aliasing itself covered by correspondence only)",
            "paths are valid UTF-8 (canonicalize_path takes &mut String)",
        ],
        "trusted_base": ["canon.rs modelled: canonicalize_path lines 44-137 incl. StackStack capacity panic and the empty-path assert"],
    },
}
