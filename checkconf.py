"""Per-property configuration of ./check."""

COMMON_ASSUME = [
    "the hand-written Lean model is faithful to /repo only as far as this run's correspondence sampled it",
    "cfg(windows) code and the `crlf` feature are out of scope",
]

def _canon_nontrivial(case, impl):
    # non-trivial: the canonical form differs from the input (something was removed/resolved)
    toks = case.split()
    it = impl.split()
    return len(it) >= 2 and it[0] == "ok" and toks[1] != it[1]

PROPS = {
    "C13": {
        "props": ["C13"],
        "modes": ["canon"],
        "level": "proof",
        "nontrivial": {"canon": _canon_nontrivial},
        "rule": "exhaustive strings over {a,b,'.','/','\\\\'} up to length 7 (quick) / 10 (thorough) plus random "
                "long paths (UTF-8 names, '.', '..', mixed/doubled separators, up to 64 components); non-trivial = "
                "canonical form differs from the input; distinct by case text",
        "assumptions": COMMON_ASSUME + [
            "in-place rewriting (copy_within on the same buffer) equals the out-of-place model because every write index is < src (model-level fact; aliasing itself covered by correspondence only)",
            "paths are valid UTF-8 (canonicalize_path takes &mut String)",
        ],
        "trusted_base": ["canon.rs modelled: canonicalize_path lines 44-137 incl. StackStack capacity panic and the empty-path assert"],
    },
}
